"""Validate refs/consensus_script.py against the repository's own vectors (tests/btc/data/script_tests.json):
the reference interpreter must reproduce every expected verdict before it may serve as an oracle.
Run: python -m refs.validate_script_ref   (concrete mode, no solver)."""
import hashlib
import json
import os
import sys

from refs import consensus_script as cs, sighash, wire, ec_ref

REPO = os.environ.get("VERIF_REPO", "/repo")


def dsha(b):
    return hashlib.sha256(hashlib.sha256(b).digest()).digest()


def compile_script(text, opnames):
    """the assembly language of script_tests.json (Core's ParseScript)"""
    out = b""
    for w in text.split():
        if w.lstrip("-").isdigit():
            n = int(w)
            if n == -1 or 1 <= n <= 16:
                out += bytes([n + 0x50])
            elif n == 0:
                out += b"\x00"
            else:
                out += sighash.push_of(bytes(__import__("refs.script_num", fromlist=["x"]).serialize(n)))
        elif w.startswith("0x"):
            out += bytes.fromhex(w[2:])
        elif len(w) >= 2 and w[0] == "'" and w[-1] == "'":
            d = w[1:-1].encode()
            out += sighash.push_of(d)
        else:
            name = w if w.startswith("OP_") else "OP_" + w
            out += bytes([opnames[name]])
    return out


def main():
    sys.path.insert(0, REPO)
    from pycoin.satoshi import opcodes   # only the opcode name table is taken from the repository
    opnames = dict(opcodes.OPCODE_LIST)
    opnames.update({"OP_FALSE": 0, "OP_TRUE": 81, "OP_NOP2": 177, "OP_NOP3": 178})
    with open(os.path.join(REPO, "tests/btc/data/script_tests.json")) as f:
        vectors = [v for v in json.load(f) if len(v) >= 4]
    flagmap = {n: getattr(cs, n) for n in ("P2SH STRICTENC DERSIG LOW_S NULLDUMMY SIGPUSHONLY MINIMALDATA DISCOURAGE_UPGRADABLE_NOPS CLEANSTACK "
                                           "CHECKLOCKTIMEVERIFY CHECKSEQUENCEVERIFY WITNESS DISCOURAGE_UPGRADABLE_WITNESS_PROGRAM MINIMALIF NULLFAIL WITNESS_PUBKEYTYPE").split()}
    bad = 0
    n = 0
    for v in vectors:
        witness, amount = [], 0
        if isinstance(v[0], list):
            witness = [bytes.fromhex(w) for w in v[0][:-1]]
            amount = int(round(v[0][-1] * 1e8))
            v = v[1:]
        ssig, spk, fl, expected = v[:4]
        try:
            script_sig = compile_script(ssig, opnames)
            script_pubkey = compile_script(spk, opnames)
        except Exception as e:
            print("cannot compile", v, e)
            bad += 1
            continue
        flags = 0
        for name in fl.split(","):
            if name and name != "NONE":
                flags |= flagmap[name]
        credit = dict(version=1, lock_time=0, ins=[dict(prev_hash=b"\x00" * 32, prev_index=0xFFFFFFFF, script=b"\x00\x00", sequence=0xFFFFFFFF, witness=[])],
                      outs=[dict(value=amount, script=script_pubkey)])
        spend = dict(version=1, lock_time=0, ins=[dict(prev_hash=dsha(wire.ser_tx(credit, False)), prev_index=0, script=script_sig, sequence=0xFFFFFFFF, witness=witness)],
                     outs=[dict(value=amount, script=b"")])

        def check_sig(sig, pubkey, code, sigversion, spend=spend, amount=amount):
            if len(sig) == 0:
                return False
            if not ((len(pubkey) == 33 and pubkey[0] in (2, 3)) or (len(pubkey) == 65 and pubkey[0] in (4, 6, 7))):
                return False
            ht = sig[-1]
            if sigversion == cs.BASE:
                kind, pre = sighash.legacy_preimage(spend, 0, code, ht)
                z = 1 if kind == "one" else int.from_bytes(dsha(bytes(pre)), "little")
                if kind != "one":
                    z = int.from_bytes(dsha(bytes(pre)), "big")
                else:
                    z = 1 << 248
            else:
                z = int.from_bytes(dsha(bytes(sighash.bip143_preimage(spend, 0, code, amount, ht, dsha))), "big")
            return ec_ref.core_verify(bytes(pubkey), bytes(sig[:-1]), z)
        checker = cs.Checker(lock_time=0, sequence=0xFFFFFFFF, version=1, check_sig=check_sig)
        try:
            cs.verify_script(script_sig, script_pubkey, witness, flags, checker)
            got = "OK"
        except cs.Fail as e:
            got = e.code
        n += 1
        ok = (got == "OK") == (expected == "OK")
        if not ok:
            bad += 1
            print("MISMATCH expected %s got %s: %r" % (expected, got, v))
    print("reference interpreter vs script_tests.json: %d vectors, %d mismatches" % (n, bad))
    return bad


if __name__ == "__main__":
    sys.exit(1 if main() else 0)
