"""Reference: SignatureHash (legacy, Bitcoin Core script/interpreter.cpp CTransactionSignatureSerializer),
FindAndDelete, and the BIP143 digest algorithm - as *preimage bytes*; the caller hashes.
Transactions are the field dictionaries of refs/wire.py."""
from symx.api import B, items_of, cat, le, ite, sym_and, sym_or, sym_not, eq
from refs import wire, script_decode

SIGHASH_ALL, SIGHASH_NONE, SIGHASH_SINGLE, SIGHASH_ANYONECANPAY = 1, 2, 3, 0x80
OP_CODESEPARATOR = 0xAB


def ops(script):
    """[(start, end, ok)] boundaries of the instructions GetOp finds; stops at the first malformed one"""
    out = []
    pc = 0
    n = len(script)
    while pc < n:
        ok, opcode, data, new_pc = script_decode.get_op(script, pc)
        if not ok:
            return out, pc
        out.append((pc, new_pc, opcode))
        pc = new_pc
    return out, None


def find_and_delete(script, b):
    """CScript FindAndDelete: at every instruction boundary drop (repeatedly) a byte-wise occurrence of b"""
    nb = len(b)
    if nb == 0:
        return script
    out = []
    pc = 0
    n = len(script)
    while True:
        while n - pc >= nb and bool(eq(script[pc:pc + nb], b)):
            pc += nb
        if pc >= n:
            break
        ok, opcode, data, new_pc = script_decode.get_op(script, pc)
        if not ok:
            out.extend(items_of(script[pc:]))
            break
        out.extend(items_of(script[pc:new_pc]))
        pc = new_pc
    return B(out)


def push_of(data):
    """CScript() << vector  (never OP_N / OP_1NEGATE; length-prefixed only)"""
    n = len(data)
    if n < 76:
        return cat(B([n]), data)
    if n <= 0xFF:
        return cat(B([76, n]), data)
    if n <= 0xFFFF:
        return cat(B([77]), le(n, 2), data)
    return cat(B([78]), le(n, 4), data)


def serialize_script_code(script):
    """CTransactionSignatureSerializer::SerializeScriptCode: the script without OP_CODESEPARATOR instructions
    (bytes after a malformed instruction are kept as they are)"""
    out = []
    lst, bad_at = ops(script)
    for start, end, opcode in lst:
        if bool(opcode == OP_CODESEPARATOR):
            continue
        out.extend(items_of(script[start:end]))
    if bad_at is not None:
        out.extend(items_of(script[bad_at:]))
    return B(out)


def legacy_preimage(tx, n_in, script_code, hash_type):
    """-> ('one', None) for the SIGHASH_SINGLE out-of-range case, else ('preimage', bytes).  Forks on hash_type."""
    base = hash_type & 0x1F
    acp = (hash_type & SIGHASH_ANYONECANPAY) != 0
    single = base == SIGHASH_SINGLE
    none = base == SIGHASH_NONE
    if single and n_in >= len(tx["outs"]):
        return ("one", None)
    code = serialize_script_code(script_code)
    parts = [le(tx["version"], 4)]
    ins = [n_in] if acp else list(range(len(tx["ins"])))
    parts.append(wire.compact_size(len(ins)))
    for k in ins:
        i = tx["ins"][k]
        parts.append(i["prev_hash"])
        parts.append(le(i["prev_index"], 4))
        parts.append(wire.varstr(code) if k == n_in else b"\x00")
        if k != n_in and (single or none):
            parts.append(b"\x00\x00\x00\x00")
        else:
            parts.append(le(i["sequence"], 4))
    n_out = 0 if none else (n_in + 1 if single else len(tx["outs"]))
    parts.append(wire.compact_size(n_out))
    for k in range(n_out):
        if single and k != n_in:
            parts.append(b"\xff" * 8 + b"\x00")
        else:
            parts.append(wire.ser_txout(tx["outs"][k]))
    parts.append(le(tx["lock_time"], 4))
    parts.append(le(hash_type & 0xFFFFFFFF, 4))
    return ("preimage", cat(*parts))


def bip143_parts(tx, n_in, hash_type):
    """the three sub-preimages or None where BIP143 prescribes the zero hash"""
    base = hash_type & 0x1F
    acp = (hash_type & SIGHASH_ANYONECANPAY) != 0
    single = base == SIGHASH_SINGLE
    none = base == SIGHASH_NONE
    prevouts = None if acp else cat(*[cat(i["prev_hash"], le(i["prev_index"], 4)) for i in tx["ins"]])
    sequence = None if (acp or single or none) else cat(*[le(i["sequence"], 4) for i in tx["ins"]])
    if not single and not none:
        outputs = cat(*[wire.ser_txout(o) for o in tx["outs"]]) if tx["outs"] else b""
    elif single and n_in < len(tx["outs"]):
        outputs = wire.ser_txout(tx["outs"][n_in])
    else:
        outputs = None
    return prevouts, sequence, outputs


def bip143_preimage(tx, n_in, script_code, amount, hash_type, H):
    """H: bytes -> 32-byte digest used for the three inner hashes (double-SHA256; single for Groestlcoin)"""
    p, s, o = bip143_parts(tx, n_in, hash_type)
    z = b"\x00" * 32
    i = tx["ins"][n_in]
    return cat(le(tx["version"], 4), z if p is None else H(p), z if s is None else H(s), i["prev_hash"], le(i["prev_index"], 4),
               wire.varstr(script_code), le(amount, 8), le(i["sequence"], 4), z if o is None else H(o), le(tx["lock_time"], 4),
               le(hash_type & 0xFFFFFFFF, 4))
