"""Independent plain-integer secp256k1 / ECDSA reference (SEC 1 v2 section 4.1.4, affine arithmetic) and Bitcoin Core's
lax DER parser (pubkey.cpp ecdsa_signature_parse_der_lax).  Concrete values only: used to validate the reference
interpreter against the repository's vectors and to replay counterexamples - never inside a solver query."""

P = 2 ** 256 - 2 ** 32 - 977
N = 0xFFFFFFFFFFFFFFFFFFFFFFFFFFFFFFFEBAAEDCE6AF48A03BBFD25E8CD0364141
GX = 0x79BE667EF9DCBBAC55A06295CE870B07029BFCDB2DCE28D959F2815B16F81798
GY = 0x483ADA7726A3C4655DA4FBFC0E1108A8FD17B448A68554199C47D08FFB10D4B8
G = (GX, GY)


def inv(a, m):
    return pow(a, -1, m)


def add(p1, p2, p=P, a=0):
    if p1 is None:
        return p2
    if p2 is None:
        return p1
    x1, y1 = p1
    x2, y2 = p2
    if x1 == x2:
        if (y1 + y2) % p == 0:
            return None
        lam = (3 * x1 * x1 + a) * inv(2 * y1, p) % p
    else:
        lam = (y2 - y1) * inv(x2 - x1, p) % p
    x3 = (lam * lam - x1 - x2) % p
    return (x3, (lam * (x1 - x3) - y1) % p)


def mul(k, pt, p=P, a=0, n=N):
    k %= n
    r = None
    q = pt
    while k:
        if k & 1:
            r = add(r, q, p, a)
        q = add(q, q, p, a)
        k >>= 1
    return r


def on_curve(pt, p=P, a=0, b=7):
    x, y = pt
    return (y * y - (x * x * x + a * x + b)) % p == 0


def verify(pub, z, r, s):
    if not (1 <= r < N and 1 <= s < N):
        return False
    w = inv(s, N)
    pt = add(mul(z * w % N, G), mul(r * w % N, pub))
    if pt is None:
        return False
    return pt[0] % N == r


def parse_pubkey(blob):
    """secp256k1_ec_pubkey_parse on a CPubKey that IsValid(): returns point or None"""
    if len(blob) == 33 and blob[0] in (2, 3):
        x = int.from_bytes(blob[1:], "big")
        if x >= P:
            return None
        y2 = (x * x * x + 7) % P
        y = pow(y2, (P + 1) // 4, P)
        if y * y % P != y2:
            return None
        if (y & 1) != (blob[0] & 1):
            y = P - y
        return (x, y)
    if len(blob) == 65 and blob[0] in (4, 6, 7):
        x = int.from_bytes(blob[1:33], "big")
        y = int.from_bytes(blob[33:], "big")
        if x >= P or y >= P or not on_curve((x, y)):
            return None
        if blob[0] in (6, 7) and (y & 1) != (blob[0] & 1):
            return None
        return (x, y)
    return None


def parse_der_lax(sig):
    """-> (r, s) or None, following ecdsa_signature_parse_der_lax"""
    n = len(sig)
    pos = 0
    if pos == n or sig[pos] != 0x30:
        return None
    pos += 1
    if pos == n:
        return None
    lenbyte = sig[pos]
    pos += 1
    if lenbyte & 0x80:
        lenbyte -= 0x80
        if lenbyte > n - pos:
            return None
        pos += lenbyte
    out = []
    for _ in range(2):
        if pos == n or sig[pos] != 0x02:
            return None
        pos += 1
        if pos == n:
            return None
        lenbyte = sig[pos]
        pos += 1
        if lenbyte & 0x80:
            lenbyte -= 0x80
            if lenbyte > n - pos:
                return None
            while lenbyte > 0 and sig[pos] == 0:
                pos += 1
                lenbyte -= 1
            if lenbyte >= 8:
                return None
            ilen = 0
            while lenbyte > 0:
                ilen = (ilen << 8) + sig[pos]
                pos += 1
                lenbyte -= 1
        else:
            ilen = lenbyte
        if ilen > n - pos:
            return None
        out.append((pos, ilen))
        pos += ilen
    vals = []
    overflow = False
    for ipos, ilen in out:
        while ilen > 0 and sig[ipos] == 0:
            ilen -= 1
            ipos += 1
        if ilen > 32:
            overflow = True
            vals.append(0)
        else:
            vals.append(int.from_bytes(sig[ipos:ipos + ilen], "big"))
    if overflow or vals[0] >= N or vals[1] >= N:
        return (0, 0)
    return (vals[0], vals[1])


def core_verify(pubkey_blob, sig_der, z):
    """CPubKey::Verify: lax parse, normalise S, verify"""
    pt = parse_pubkey(pubkey_blob)
    if pt is None:
        return False
    rs = parse_der_lax(sig_der)
    if rs is None:
        return False
    r, s = rs
    if s > N // 2:
        s = N - s
    return verify(pt, z, r, s)
