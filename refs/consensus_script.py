"""Reference interpreter: Bitcoin Core script/interpreter.cpp (EvalScript, VerifyScript, VerifyWitnessProgram,
signature/pubkey encoding checks; pre-taproot, with the flag semantics of the Core release whose
script_tests.json ships in pycoin's tests/), transcribed so that it runs on proxy values and on plain bytes.

Signature verification itself (CheckSig) is a parameter: `checker.check_sig(sig, pubkey, script_code, sigversion)`.
"""
from symx.api import B, items_of, ite, sym_and, sym_or, sym_not, eq, truth, cat, le
from refs import script_num as script_num_mod, script_decode, sighash

# opcodes
OP_0, OP_PUSHDATA1, OP_PUSHDATA2, OP_PUSHDATA4, OP_1NEGATE, OP_RESERVED, OP_1, OP_16 = 0, 76, 77, 78, 79, 80, 81, 96
OP_NOP, OP_VER, OP_IF, OP_NOTIF, OP_VERIF, OP_VERNOTIF, OP_ELSE, OP_ENDIF, OP_VERIFY, OP_RETURN = 97, 98, 99, 100, 101, 102, 103, 104, 105, 106
OP_TOALTSTACK, OP_FROMALTSTACK, OP_2DROP, OP_2DUP, OP_3DUP, OP_2OVER, OP_2ROT, OP_2SWAP, OP_IFDUP, OP_DEPTH = 107, 108, 109, 110, 111, 112, 113, 114, 115, 116
OP_DROP, OP_DUP, OP_NIP, OP_OVER, OP_PICK, OP_ROLL, OP_ROT, OP_SWAP, OP_TUCK = 117, 118, 119, 120, 121, 122, 123, 124, 125
OP_CAT, OP_SUBSTR, OP_LEFT, OP_RIGHT, OP_SIZE, OP_INVERT, OP_AND, OP_OR, OP_XOR, OP_EQUAL, OP_EQUALVERIFY = 126, 127, 128, 129, 130, 131, 132, 133, 134, 135, 136
OP_RESERVED1, OP_RESERVED2 = 137, 138
OP_1ADD, OP_1SUB, OP_2MUL, OP_2DIV, OP_NEGATE, OP_ABS, OP_NOT, OP_0NOTEQUAL = 139, 140, 141, 142, 143, 144, 145, 146
OP_ADD, OP_SUB, OP_MUL, OP_DIV, OP_MOD, OP_LSHIFT, OP_RSHIFT = 147, 148, 149, 150, 151, 152, 153
OP_BOOLAND, OP_BOOLOR, OP_NUMEQUAL, OP_NUMEQUALVERIFY, OP_NUMNOTEQUAL, OP_LESSTHAN, OP_GREATERTHAN = 154, 155, 156, 157, 158, 159, 160
OP_LESSTHANOREQUAL, OP_GREATERTHANOREQUAL, OP_MIN, OP_MAX, OP_WITHIN = 161, 162, 163, 164, 165
OP_RIPEMD160, OP_SHA1, OP_SHA256, OP_HASH160, OP_HASH256, OP_CODESEPARATOR = 166, 167, 168, 169, 170, 171
OP_CHECKSIG, OP_CHECKSIGVERIFY, OP_CHECKMULTISIG, OP_CHECKMULTISIGVERIFY = 172, 173, 174, 175
OP_NOP1, OP_CHECKLOCKTIMEVERIFY, OP_CHECKSEQUENCEVERIFY, OP_NOP4, OP_NOP10 = 176, 177, 178, 179, 185

DISABLED = (OP_CAT, OP_SUBSTR, OP_LEFT, OP_RIGHT, OP_INVERT, OP_AND, OP_OR, OP_XOR, OP_2MUL, OP_2DIV, OP_MUL, OP_DIV, OP_MOD, OP_LSHIFT, OP_RSHIFT)

# flags (script/interpreter.h), numbered as pycoin numbers them
P2SH, STRICTENC, DERSIG, LOW_S, NULLDUMMY, SIGPUSHONLY, MINIMALDATA, DISCOURAGE_UPGRADABLE_NOPS = 1, 2, 4, 8, 16, 32, 64, 128
CLEANSTACK, CHECKLOCKTIMEVERIFY, CHECKSEQUENCEVERIFY, WITNESS, DISCOURAGE_UPGRADABLE_WITNESS_PROGRAM = 256, 512, 1024, 2048, 4096
MINIMALIF, NULLFAIL, WITNESS_PUBKEYTYPE = 8192, 16384, 32768

MAX_SCRIPT_ELEMENT_SIZE, MAX_OPS_PER_SCRIPT, MAX_SCRIPT_SIZE, MAX_STACK_SIZE, MAX_PUBKEYS = 520, 201, 10000, 1000, 20
LOCKTIME_THRESHOLD = 500000000
SEQUENCE_FINAL, SEQ_DISABLE, SEQ_TYPE, SEQ_MASK = 0xFFFFFFFF, 1 << 31, 1 << 22, 0xFFFF
SECP256K1_N = 0xFFFFFFFFFFFFFFFFFFFFFFFFFFFFFFFEBAAEDCE6AF48A03BBFD25E8CD0364141

BASE, WITNESS_V0 = 0, 1


class Fail(Exception):
    def __init__(self, code):
        Exception.__init__(self, code)
        self.code = code


def flag(flags, f):
    return bool(truth((flags & f) != 0))


def cast_to_bool(vch):
    """CastToBool: false iff all bytes zero, except that the last byte may be 0x80 (negative zero)"""
    v = items_of(vch)
    if not v:
        return False
    nz = []
    for i, b in enumerate(v):
        if i == len(v) - 1:
            nz.append(sym_and(b != 0, b != 0x80))
        else:
            nz.append(b != 0)
    return sym_or(*nz)


def script_num(vch, require_minimal, max_size=4):
    """CScriptNum(vch, fRequireMinimal, nMaxNumSize) -> int; raises Fail('UNKNOWN_ERROR') like the caught scriptnum_error"""
    if len(vch) > max_size:
        raise Fail("UNKNOWN_ERROR")
    if require_minimal and not bool(truth(script_num_mod.is_minimal(vch))):
        raise Fail("UNKNOWN_ERROR")
    return script_num_mod.set_vch(vch)


TRUE, FALSE = b"\x01", b""


def num_vch(n):
    return script_num_mod.serialize(n)


# ---- signature / key encodings -------------------------------------------------------------------------

def is_valid_signature_encoding(sig):
    """IsValidSignatureEncoding (BIP66): bool/SymBool, no forks except on the two length bytes"""
    s = items_of(sig)
    n = len(s)
    if n < 9 or n > 73:
        return False
    if not bool(truth(s[0] == 0x30)):
        return False
    if not bool(truth(s[1] == n - 3)):
        return False
    len_r = s[3]
    if not bool(truth(5 + len_r < n)):
        return False
    len_r = int(len_r)
    len_s = s[5 + len_r]
    if not bool(truth(len_r + len_s + 7 == n)):
        return False
    len_s = int(len_s)
    if not bool(truth(s[2] == 0x02)):
        return False
    if len_r == 0:
        return False
    if bool(truth((s[4] & 0x80) != 0)):
        return False
    if len_r > 1 and bool(truth(sym_and(s[4] == 0x00, (s[5] & 0x80) == 0))):
        return False
    if not bool(truth(s[len_r + 4] == 0x02)):
        return False
    if len_s == 0:
        return False
    if bool(truth((s[len_r + 6] & 0x80) != 0)):
        return False
    if len_s > 1 and bool(truth(sym_and(s[len_r + 6] == 0x00, (s[len_r + 7] & 0x80) == 0))):
        return False
    return True


def sig_s_value(sig):
    """the S integer of a signature that passed is_valid_signature_encoding"""
    s = items_of(sig)
    len_r = int(s[3])
    len_s = int(s[5 + len_r])
    v = 0
    for b in s[6 + len_r:6 + len_r + len_s]:
        v = (v << 8) | b
    return v


def is_low_der_signature(sig):
    """caller has checked validity; S <= n/2"""
    return sig_s_value(sig) <= SECP256K1_N // 2


def is_defined_hashtype(sig):
    s = items_of(sig)
    if not s:
        return False
    ht = s[-1] & 0x7F   # ~SIGHASH_ANYONECANPAY
    return sym_and(ht >= 1, ht <= 3)


def check_signature_encoding(sig, flags):
    if len(sig) == 0:
        return
    if (flag(flags, DERSIG) or flag(flags, LOW_S) or flag(flags, STRICTENC)) and not is_valid_signature_encoding(sig):
        raise Fail("SIG_DER")
    if flag(flags, LOW_S) and not bool(truth(is_low_der_signature(sig))):
        raise Fail("SIG_HIGH_S")
    if flag(flags, STRICTENC) and not bool(truth(is_defined_hashtype(sig))):
        raise Fail("SIG_HASHTYPE")


def is_compressed_or_uncompressed_pubkey(pk):
    p = items_of(pk)
    if len(p) < 33:
        return False
    if len(p) == 65:
        return p[0] == 0x04
    if len(p) == 33:
        return sym_or(p[0] == 0x02, p[0] == 0x03)
    return False


def is_compressed_pubkey(pk):
    p = items_of(pk)
    if len(p) != 33:
        return False
    return sym_or(p[0] == 0x02, p[0] == 0x03)


def check_pubkey_encoding(pk, flags, sigversion):
    if flag(flags, STRICTENC) and not bool(truth(is_compressed_or_uncompressed_pubkey(pk))):
        raise Fail("PUBKEYTYPE")
    if flag(flags, WITNESS_PUBKEYTYPE) and sigversion == WITNESS_V0 and not bool(truth(is_compressed_pubkey(pk))):
        raise Fail("WITNESS_PUBKEYTYPE")


# ---- interpreter state -------------------------------------------------------------------------------------

class State:
    def __init__(self, stack=None, altstack=None, vf_exec=None, op_count=0, code_hash_pos=0):
        self.stack = list(stack or [])
        self.altstack = list(altstack or [])
        self.vf_exec = list(vf_exec or [])
        self.op_count = op_count
        self.code_hash_pos = code_hash_pos


class Checker:
    """transaction context for CLTV/CSV and the signature oracle"""

    def __init__(self, lock_time=0, sequence=0xFFFFFFFF, version=1, check_sig=None):
        self.lock_time = lock_time
        self.sequence = sequence
        self.version = version
        self._check_sig = check_sig

    def check_sig(self, sig, pubkey, script_code, sigversion):
        if self._check_sig is None:
            return False
        return self._check_sig(sig, pubkey, script_code, sigversion)

    def check_lock_time(self, n):
        a = self.lock_time < LOCKTIME_THRESHOLD
        b = n < LOCKTIME_THRESHOLD
        if not bool(truth(eq(truth(a), truth(b)) if not (isinstance(a, bool) and isinstance(b, bool)) else a == b)):
            return False
        if bool(truth(n > self.lock_time)):
            return False
        if bool(truth(self.sequence == SEQUENCE_FINAL)):
            return False
        return True

    def check_sequence(self, n):
        if bool(truth((self.version & 0xFFFFFFFF) < 2)):
            return False
        if bool(truth((self.sequence & SEQ_DISABLE) != 0)):
            return False
        mask = SEQ_TYPE | SEQ_MASK
        tx_m = self.sequence & mask
        n_m = n & mask
        a = tx_m < SEQ_TYPE
        b = n_m < SEQ_TYPE
        same = sym_or(sym_and(a, b), sym_and(sym_not(a), sym_not(b)))
        if not bool(truth(same)):
            return False
        if bool(truth(n_m > tx_m)):
            return False
        return True


def _top(st, i):
    return st.stack[i]


def _need(st, n, code="INVALID_STACK_OPERATION"):
    if len(st.stack) < n:
        raise Fail(code)


def step(st, script, pc, flags, checker, sigversion=BASE):
    """execute the instruction at pc (one iteration of EvalScript's loop); returns the new pc, raises Fail"""
    f_exec = not any(not bool(truth(v)) for v in st.vf_exec)
    require_minimal = flag(flags, MINIMALDATA)
    ok, opcode, push_value, new_pc = script_decode.get_op(script, pc)
    if not ok:
        raise Fail("BAD_OPCODE")
    opcode = int(opcode)
    if opcode > OP_PUSHDATA4:
        push_value = None       # GetOp returns data only for the length-prefixed pushes
    if push_value is not None and len(push_value) > MAX_SCRIPT_ELEMENT_SIZE:
        raise Fail("PUSH_SIZE")
    if opcode > OP_16:
        st.op_count = st.op_count + 1
        if bool(truth(st.op_count > MAX_OPS_PER_SCRIPT)):
            raise Fail("OP_COUNT")
    if opcode in DISABLED:
        raise Fail("DISABLED_OPCODE")
    s = st.stack
    if f_exec and 0 <= opcode <= OP_PUSHDATA4:
        if require_minimal and not bool(truth(script_decode.check_minimal_push(push_value, opcode))):
            raise Fail("MINIMALDATA")
        s.append(push_value)
    elif f_exec or (OP_IF <= opcode <= OP_ENDIF):
        _exec(st, opcode, script, new_pc, flags, checker, sigversion, f_exec, require_minimal)
    if len(st.stack) + len(st.altstack) > MAX_STACK_SIZE:
        raise Fail("STACK_SIZE")
    return new_pc


def _exec(st, opcode, script, new_pc, flags, checker, sigversion, f_exec, require_minimal):
    s = st.stack

    def num(v, max_size=4):
        return script_num(v, require_minimal, max_size)

    def push_bool(b):
        b = truth(b)
        if isinstance(b, bool):
            s.append(TRUE if b else FALSE)
        else:
            s.append(TRUE if bool(b) else FALSE)

    if opcode == OP_1NEGATE or OP_1 <= opcode <= OP_16:
        s.append(num_vch(opcode - (OP_1 - 1)))
    elif opcode == OP_NOP:
        pass
    elif opcode == OP_CHECKLOCKTIMEVERIFY:
        if not flag(flags, CHECKLOCKTIMEVERIFY):
            if flag(flags, DISCOURAGE_UPGRADABLE_NOPS):
                raise Fail("DISCOURAGE_UPGRADABLE_NOPS")
            return
        _need(st, 1)
        n = num(s[-1], 5)
        if bool(truth(n < 0)):
            raise Fail("NEGATIVE_LOCKTIME")
        if not checker.check_lock_time(n):
            raise Fail("UNSATISFIED_LOCKTIME")
    elif opcode == OP_CHECKSEQUENCEVERIFY:
        if not flag(flags, CHECKSEQUENCEVERIFY):
            if flag(flags, DISCOURAGE_UPGRADABLE_NOPS):
                raise Fail("DISCOURAGE_UPGRADABLE_NOPS")
            return
        _need(st, 1)
        n = num(s[-1], 5)
        if bool(truth(n < 0)):
            raise Fail("NEGATIVE_LOCKTIME")
        if bool(truth((n & SEQ_DISABLE) != 0)):
            return
        if not checker.check_sequence(n):
            raise Fail("UNSATISFIED_LOCKTIME")
    elif opcode == OP_NOP1 or OP_NOP4 <= opcode <= OP_NOP10:
        if flag(flags, DISCOURAGE_UPGRADABLE_NOPS):
            raise Fail("DISCOURAGE_UPGRADABLE_NOPS")
    elif opcode in (OP_IF, OP_NOTIF):
        value = False
        if f_exec:
            _need(st, 1, "UNBALANCED_CONDITIONAL")
            vch = s[-1]
            if sigversion == WITNESS_V0 and flag(flags, MINIMALIF):
                if len(vch) > 1:
                    raise Fail("MINIMALIF")
                if len(vch) == 1 and not bool(truth(items_of(vch)[0] == 1)):
                    raise Fail("MINIMALIF")
            value = bool(truth(cast_to_bool(vch)))
            if opcode == OP_NOTIF:
                value = not value
            s.pop()
        st.vf_exec.append(value)
    elif opcode == OP_ELSE:
        if not st.vf_exec:
            raise Fail("UNBALANCED_CONDITIONAL")
        st.vf_exec[-1] = sym_not(truth(st.vf_exec[-1]))
    elif opcode == OP_ENDIF:
        if not st.vf_exec:
            raise Fail("UNBALANCED_CONDITIONAL")
        st.vf_exec.pop()
    elif opcode == OP_VERIFY:
        _need(st, 1)
        if bool(truth(cast_to_bool(s[-1]))):
            s.pop()
        else:
            raise Fail("VERIFY")
    elif opcode == OP_RETURN:
        raise Fail("OP_RETURN")
    elif opcode == OP_TOALTSTACK:
        _need(st, 1)
        st.altstack.append(s.pop())
    elif opcode == OP_FROMALTSTACK:
        if len(st.altstack) < 1:
            raise Fail("INVALID_ALTSTACK_OPERATION")
        s.append(st.altstack.pop())
    elif opcode == OP_2DROP:
        _need(st, 2)
        s.pop()
        s.pop()
    elif opcode == OP_2DUP:
        _need(st, 2)
        a, b = s[-2], s[-1]
        s.extend([a, b])
    elif opcode == OP_3DUP:
        _need(st, 3)
        a, b, c = s[-3], s[-2], s[-1]
        s.extend([a, b, c])
    elif opcode == OP_2OVER:
        _need(st, 4)
        a, b = s[-4], s[-3]
        s.extend([a, b])
    elif opcode == OP_2ROT:
        _need(st, 6)
        a, b = s[-6], s[-5]
        del s[-6:-4]
        s.extend([a, b])
    elif opcode == OP_2SWAP:
        _need(st, 4)
        s[-4], s[-2] = s[-2], s[-4]
        s[-3], s[-1] = s[-1], s[-3]
    elif opcode == OP_IFDUP:
        _need(st, 1)
        if bool(truth(cast_to_bool(s[-1]))):
            s.append(s[-1])
    elif opcode == OP_DEPTH:
        s.append(num_vch(len(s)))
    elif opcode == OP_DROP:
        _need(st, 1)
        s.pop()
    elif opcode == OP_DUP:
        _need(st, 1)
        s.append(s[-1])
    elif opcode == OP_NIP:
        _need(st, 2)
        del s[-2]
    elif opcode == OP_OVER:
        _need(st, 2)
        s.append(s[-2])
    elif opcode in (OP_PICK, OP_ROLL):
        _need(st, 2)
        n = num(s[-1])
        s.pop()
        if bool(truth(sym_or(n < 0, n >= len(s)))):
            raise Fail("INVALID_STACK_OPERATION")
        n = int(n)
        vch = s[-n - 1]
        if opcode == OP_ROLL:
            del s[-n - 1]
        s.append(vch)
    elif opcode == OP_ROT:
        _need(st, 3)
        s[-3], s[-2] = s[-2], s[-3]
        s[-2], s[-1] = s[-1], s[-2]
    elif opcode == OP_SWAP:
        _need(st, 2)
        s[-2], s[-1] = s[-1], s[-2]
    elif opcode == OP_TUCK:
        _need(st, 2)
        s.insert(len(s) - 2, s[-1])
    elif opcode == OP_SIZE:
        _need(st, 1)
        s.append(num_vch(len(s[-1])))
    elif opcode in (OP_EQUAL, OP_EQUALVERIFY):
        _need(st, 2)
        equal = bool(truth(eq(s[-2], s[-1]))) if len(s[-2]) == len(s[-1]) else False
        s.pop()
        s.pop()
        s.append(TRUE if equal else FALSE)
        if opcode == OP_EQUALVERIFY:
            if equal:
                s.pop()
            else:
                raise Fail("EQUALVERIFY")
    elif opcode in (OP_1ADD, OP_1SUB, OP_NEGATE, OP_ABS, OP_NOT, OP_0NOTEQUAL):
        _need(st, 1)
        bn = num(s[-1])
        if opcode == OP_1ADD:
            bn = bn + 1
        elif opcode == OP_1SUB:
            bn = bn - 1
        elif opcode == OP_NEGATE:
            bn = -bn
        elif opcode == OP_ABS:
            bn = ite(bn < 0, -bn, bn)
        elif opcode == OP_NOT:
            bn = ite(bn == 0, 1, 0)
        else:
            bn = ite(bn != 0, 1, 0)
        s.pop()
        s.append(num_vch(bn))
    elif OP_ADD <= opcode <= OP_MAX:
        _need(st, 2)
        bn1 = num(s[-2])
        bn2 = num(s[-1])
        if opcode == OP_ADD:
            bn = bn1 + bn2
        elif opcode == OP_SUB:
            bn = bn1 - bn2
        elif opcode == OP_BOOLAND:
            bn = ite(sym_and(bn1 != 0, bn2 != 0), 1, 0)
        elif opcode == OP_BOOLOR:
            bn = ite(sym_or(bn1 != 0, bn2 != 0), 1, 0)
        elif opcode in (OP_NUMEQUAL, OP_NUMEQUALVERIFY):
            bn = ite(bn1 == bn2, 1, 0)
        elif opcode == OP_NUMNOTEQUAL:
            bn = ite(bn1 != bn2, 1, 0)
        elif opcode == OP_LESSTHAN:
            bn = ite(bn1 < bn2, 1, 0)
        elif opcode == OP_GREATERTHAN:
            bn = ite(bn1 > bn2, 1, 0)
        elif opcode == OP_LESSTHANOREQUAL:
            bn = ite(bn1 <= bn2, 1, 0)
        elif opcode == OP_GREATERTHANOREQUAL:
            bn = ite(bn1 >= bn2, 1, 0)
        elif opcode == OP_MIN:
            bn = ite(bn1 < bn2, bn1, bn2)
        elif opcode == OP_MAX:
            bn = ite(bn1 > bn2, bn1, bn2)
        else:
            raise Fail("BAD_OPCODE")
        s.pop()
        s.pop()
        s.append(num_vch(bn))
        if opcode == OP_NUMEQUALVERIFY:
            if bool(truth(cast_to_bool(s[-1]))):
                s.pop()
            else:
                raise Fail("NUMEQUALVERIFY")
    elif opcode == OP_WITHIN:
        _need(st, 3)
        bn1, bn2, bn3 = num(s[-3]), num(s[-2]), num(s[-1])
        value = sym_and(bn2 <= bn1, bn1 < bn3)
        s.pop()
        s.pop()
        s.pop()
        push_bool(value)
    elif OP_RIPEMD160 <= opcode <= OP_HASH256:
        _need(st, 1)
        from symx.shims import hashlib_shim as H
        v = s.pop()
        if opcode == OP_RIPEMD160:
            r = H.new("ripemd160", v).digest()
        elif opcode == OP_SHA1:
            r = H.sha1(v).digest()
        elif opcode == OP_SHA256:
            r = H.sha256(v).digest()
        elif opcode == OP_HASH160:
            r = H.new("ripemd160", H.sha256(v).digest()).digest()
        else:
            r = H.sha256(H.sha256(v).digest()).digest()
        s.append(r)
    elif opcode == OP_CODESEPARATOR:
        st.code_hash_pos = new_pc
    elif opcode in (OP_CHECKSIG, OP_CHECKSIGVERIFY):
        _need(st, 2)
        sig, pk = s[-2], s[-1]
        code = script[st.code_hash_pos:]
        if sigversion == BASE:
            code = sighash.find_and_delete(code, sighash.push_of(sig))
        check_signature_encoding(sig, flags)
        check_pubkey_encoding(pk, flags, sigversion)
        success = bool(truth(checker.check_sig(sig, pk, code, sigversion)))
        if not success and flag(flags, NULLFAIL) and len(sig):
            raise Fail("NULLFAIL")
        s.pop()
        s.pop()
        s.append(TRUE if success else FALSE)
        if opcode == OP_CHECKSIGVERIFY:
            if success:
                s.pop()
            else:
                raise Fail("CHECKSIGVERIFY")
    elif opcode in (OP_CHECKMULTISIG, OP_CHECKMULTISIGVERIFY):
        i = 1
        _need(st, i)
        n_keys = num(s[-i])
        if bool(truth(sym_or(n_keys < 0, n_keys > MAX_PUBKEYS))):
            raise Fail("PUBKEY_COUNT")
        n_keys = int(n_keys)
        st.op_count = st.op_count + n_keys
        if bool(truth(st.op_count > MAX_OPS_PER_SCRIPT)):
            raise Fail("OP_COUNT")
        i += 1
        ikey = i
        ikey2 = n_keys + 2
        i += n_keys
        _need(st, i)
        n_sigs = num(s[-i])
        if bool(truth(sym_or(n_sigs < 0, n_sigs > n_keys))):
            raise Fail("SIG_COUNT")
        n_sigs = int(n_sigs)
        i += 1
        isig = i
        i += n_sigs
        _need(st, i)
        code = script[st.code_hash_pos:]
        for k in range(n_sigs):
            if sigversion == BASE:
                code = sighash.find_and_delete(code, sighash.push_of(s[-isig - k]))
        success = True
        while success and n_sigs > 0:
            sig = s[-isig]
            pk = s[-ikey]
            check_signature_encoding(sig, flags)
            check_pubkey_encoding(pk, flags, sigversion)
            ok = bool(truth(checker.check_sig(sig, pk, code, sigversion)))
            if ok:
                isig += 1
                n_sigs -= 1
            ikey += 1
            n_keys -= 1
            if n_sigs > n_keys:
                success = False
        while i > 1:
            i -= 1
            if not success and flag(flags, NULLFAIL) and not ikey2 and len(s[-1]):
                raise Fail("NULLFAIL")
            if ikey2 > 0:
                ikey2 -= 1
            s.pop()
        _need(st, 1)
        if flag(flags, NULLDUMMY) and len(s[-1]):
            raise Fail("SIG_NULLDUMMY")
        s.pop()
        s.append(TRUE if success else FALSE)
        if opcode == OP_CHECKMULTISIGVERIFY:
            if success:
                s.pop()
            else:
                raise Fail("CHECKMULTISIGVERIFY")
    else:
        raise Fail("BAD_OPCODE")


def eval_script(stack, script, flags, checker, sigversion=BASE):
    """EvalScript: mutates and returns the stack; raises Fail"""
    if len(script) > MAX_SCRIPT_SIZE:
        raise Fail("SCRIPT_SIZE")
    st = State(stack=stack)
    pc = 0
    while pc < len(script):
        pc = step(st, script, pc, flags, checker, sigversion)
    if st.vf_exec:
        raise Fail("UNBALANCED_CONDITIONAL")
    stack[:] = st.stack
    return stack


def is_push_only(script):
    pc = 0
    while pc < len(script):
        ok, opcode, data, pc = script_decode.get_op(script, pc)
        if not ok:
            return False
        if bool(truth(opcode > OP_16)):
            return False
    return True


def is_p2sh(script):
    s = items_of(script)
    if len(s) != 23:
        return False
    return sym_and(s[0] == OP_HASH160, s[1] == 0x14, s[22] == OP_EQUAL)


def witness_program(script):
    """-> (version, program) or None"""
    s = items_of(script)
    if len(s) < 4 or len(s) > 42:
        return None
    if not bool(truth(sym_or(s[0] == OP_0, sym_and(s[0] >= OP_1, s[0] <= OP_16)))):
        return None
    if not bool(truth(s[1] + 2 == len(s))):
        return None
    v = int(s[0])
    return (0 if v == 0 else v - (OP_1 - 1), script[2:])


def verify_witness_program(witness, version, program, flags, checker):
    from symx.shims import hashlib_shim as H
    if version == 0:
        if len(program) == 32:
            if len(witness) == 0:
                raise Fail("WITNESS_PROGRAM_WITNESS_EMPTY")
            script_pubkey = witness[-1]
            stack = list(witness[:-1])
            if not bool(truth(eq(H.sha256(script_pubkey).digest(), program))):
                raise Fail("WITNESS_PROGRAM_MISMATCH")
        elif len(program) == 20:
            if len(witness) != 2:
                raise Fail("WITNESS_PROGRAM_MISMATCH")
            script_pubkey = cat(B([OP_DUP, OP_HASH160, 20]), program, B([OP_EQUALVERIFY, OP_CHECKSIG]))
            stack = list(witness)
        else:
            raise Fail("WITNESS_PROGRAM_WRONG_LENGTH")
    elif flag(flags, DISCOURAGE_UPGRADABLE_WITNESS_PROGRAM):
        raise Fail("DISCOURAGE_UPGRADABLE_WITNESS_PROGRAM")
    else:
        return
    for item in stack:
        if len(item) > MAX_SCRIPT_ELEMENT_SIZE:
            raise Fail("PUSH_SIZE")
    eval_script(stack, script_pubkey, flags, checker, WITNESS_V0)
    if len(stack) != 1:
        raise Fail("EVAL_FALSE")
    if not bool(truth(cast_to_bool(stack[-1]))):
        raise Fail("EVAL_FALSE")


def verify_script(script_sig, script_pubkey, witness, flags, checker):
    """VerifyScript: returns normally on success, raises Fail otherwise"""
    if flag(flags, SIGPUSHONLY) and not is_push_only(script_sig):
        raise Fail("SIG_PUSHONLY")
    stack = []
    eval_script(stack, script_sig, flags, checker, BASE)
    stack_copy = list(stack) if flag(flags, P2SH) else None
    eval_script(stack, script_pubkey, flags, checker, BASE)
    if not stack or not bool(truth(cast_to_bool(stack[-1]))):
        raise Fail("EVAL_FALSE")
    had_witness = False
    if flag(flags, WITNESS):
        wp = witness_program(script_pubkey)
        if wp is not None:
            had_witness = True
            if len(script_sig) != 0:
                raise Fail("WITNESS_MALLEATED")
            verify_witness_program(witness, wp[0], wp[1], flags, checker)
            del stack[1:]
    if flag(flags, P2SH) and bool(truth(is_p2sh(script_pubkey))):
        if not is_push_only(script_sig):
            raise Fail("SIG_PUSHONLY")
        stack = stack_copy
        pubkey_serialized = stack.pop()
        eval_script(stack, pubkey_serialized, flags, checker, BASE)
        if not stack or not bool(truth(cast_to_bool(stack[-1]))):
            raise Fail("EVAL_FALSE")
        if flag(flags, WITNESS):
            wp = witness_program(pubkey_serialized)
            if wp is not None:
                had_witness = True
                if not bool(truth(eq(script_sig, sighash.push_of(pubkey_serialized)))):
                    raise Fail("WITNESS_MALLEATED_P2SH")
                verify_witness_program(witness, wp[0], wp[1], flags, checker)
                del stack[1:]
    if flag(flags, CLEANSTACK):
        if len(stack) != 1:
            raise Fail("CLEANSTACK")
    if flag(flags, WITNESS):
        if not had_witness and len(witness) != 0:
            raise Fail("WITNESS_UNEXPECTED")
