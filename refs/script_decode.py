"""Reference: CScript::GetScriptOp (script/script.cpp) and CheckMinimalPush (script/interpreter.cpp).
get_op returns what pycoin's get_opcode is documented to return: for OP_1NEGATE / OP_1..OP_16 the
'data' is the number the interpreter pushes (CScriptNum(opcode - 80) serialised)."""
from symx.api import B, items_of, from_le, sym_and, sym_or, sym_not

OP_PUSHDATA1, OP_PUSHDATA2, OP_PUSHDATA4, OP_1NEGATE, OP_1, OP_16 = 76, 77, 78, 79, 81, 96


def get_op(script, pc):
    """-> (ok, opcode, data_or_None, new_pc); script is indexable bytes (maybe symbolic)"""
    end = len(script)
    if pc >= end:
        return (False, None, None, pc)
    opcode = script[pc]
    pc += 1
    if opcode <= OP_PUSHDATA4:
        if opcode < OP_PUSHDATA1:
            size = opcode
        elif opcode == OP_PUSHDATA1:
            if end - pc < 1:
                return (False, opcode, None, pc)
            size = script[pc]
            pc += 1
        elif opcode == OP_PUSHDATA2:
            if end - pc < 2:
                return (False, opcode, None, pc)
            size = from_le(script[pc:pc + 2])
            pc += 2
        else:
            if end - pc < 4:
                return (False, opcode, None, pc)
            size = from_le(script[pc:pc + 4])
            pc += 4
        if end - pc < size:
            return (False, opcode, None, pc)
        size = int(size)
        data = script[pc:pc + size]
        return (True, opcode, data, pc + size)
    if opcode == OP_1NEGATE:
        return (True, opcode, b"\x81", pc)
    if sym_and(opcode >= OP_1, opcode <= OP_16):
        return (True, opcode, B([opcode - 80]), pc)
    return (True, opcode, None, pc)


def check_minimal_push(data, opcode):
    """bool / SymBool"""
    if opcode > OP_PUSHDATA4:
        return True
    d = items_of(data)
    n = len(d)
    if n == 0:
        return opcode == 0
    if n == 1:
        small = sym_and(d[0] >= 1, d[0] <= 16)
        return sym_and(sym_not(small), d[0] != 0x81, opcode == 1)
    if n <= 75:
        return opcode == n
    if n <= 255:
        return opcode == OP_PUSHDATA1
    if n <= 65535:
        return opcode == OP_PUSHDATA2
    return True
