"""Reference: Bitcoin Core's CScriptNum (script/script.h), transcribed.
serialize(), the minimal-encoding rule of the CScriptNum(vch, fRequireMinimal) constructor and
set_vch().  Written on plain integer/byte operations so that it runs on proxies and on ints."""
from symx.api import B, items_of, ite, sym_and, sym_or, sym_not


def serialize(value):
    """CScriptNum::serialize(const int64_t& value) generalised to unbounded ints"""
    if value == 0:
        return B([])
    result = []
    neg = value < 0
    absvalue = -value if neg else value
    while absvalue:
        result.append(absvalue & 0xFF)
        absvalue >>= 8
    # - If the most significant byte is >= 0x80 and the value is positive, push a new zero-byte
    # - If the most significant byte is >= 0x80 and the value is negative, push a new 0x80 byte
    # - Otherwise, if negative set the sign bit
    if result[-1] & 0x80:
        result.append(0x80 if neg else 0)
    elif neg:
        result[-1] = result[-1] | 0x80
    return B(result)


def is_minimal(vch):
    """the fRequireMinimal test of CScriptNum's constructor; returns bool / SymBool"""
    v = items_of(vch)
    if len(v) == 0:
        return True
    # "If the most-significant-byte - excluding the sign bit - is zero then we're not minimal"
    top_zero = (v[-1] & 0x7F) == 0
    # "...unless it would conflict with the sign bit: more than one byte and the second-most-significant
    #  byte has its high bit set"
    if len(v) <= 1:
        excused = False
    else:
        excused = (v[-2] & 0x80) != 0
    return sym_not(sym_and(top_zero, sym_not(excused)))


def set_vch(vch):
    v = items_of(vch)
    if len(v) == 0:
        return 0
    result = 0
    for i in range(len(v)):
        result = result | (v[i] << (8 * i))
    # if the input vector's most significant byte is 0x80, remove it from the result's msb and return a negative
    mag = result & ~(0x80 << (8 * (len(v) - 1)))
    return ite((v[-1] & 0x80) != 0, -mag, result)
