"""Reference: BIP173 / BIP350 (checksum as a polynomial remainder over GF(32), written from the BIP text's
specification of the generator polynomial rather than from the reference code), segwit address rules."""
from symx.api import ite, sym_and, sym_or, sym_not

CHARSET = "qpzry9x8gf2tvdw0s3jn54khce6mua7l"
GEN = [0x3B6A57B2, 0x26508E6D, 0x1EA119FA, 0x3D4233DD, 0x2A1462B3]
BECH32_CONST, BECH32M_CONST = 1, 0x2BC830A3


def polymod(values):
    chk = 1
    for v in values:
        b = chk >> 25
        chk = ((chk & 0x1FFFFFF) << 5) ^ v
        for i in range(5):
            chk = chk ^ ite(((b >> i) & 1) != 0, GEN[i], 0)
    return chk


def hrp_expand(hrp):
    return [ord(c) >> 5 for c in hrp] + [0] + [ord(c) & 31 for c in hrp]


def checksum(hrp, data, const):
    pm = polymod(hrp_expand(hrp) + list(data) + [0] * 6) ^ const
    return [(pm >> (5 * (5 - i))) & 31 for i in range(6)]


def to5(prog):
    """8 -> 5 bit regrouping with zero padding (BIP173 'Segwit address format')"""
    acc, bits, out = 0, 0, []
    for b in prog:
        acc = (acc << 8) | b
        bits += 8
        while bits >= 5:
            bits -= 5
            out.append((acc >> bits) & 31)
            acc = acc & ((1 << bits) - 1)
    if bits:
        out.append((acc << (5 - bits)) & 31)
    return out


def from5(data):
    """5 -> 8 bits; returns (bytes list, ok) where ok = padding of at most 4 bits, all zero"""
    acc, bits, out = 0, 0, []
    for v in data:
        acc = (acc << 5) | v
        bits += 5
        while bits >= 8:
            bits -= 8
            out.append((acc >> bits) & 255)
            acc = acc & ((1 << bits) - 1)
    ok = sym_and(bits < 5, acc == 0) if bits else True
    return out, ok


def valid_program(witver, n):
    return (0 <= witver <= 16) and 2 <= n <= 40 and (witver != 0 or n in (20, 32))
