"""Reference models: RIPEMD-160 (Dobbertin, Bosselaers, Preneel 1996, Appendix A pseudo-code and tables)
and MurmurHash3_x86_32 (Appleby, smhasher MurmurHash3.cpp), plus BIP37's bit addressing.
All arithmetic is on 32-bit words (masked after every operation), on ints or proxies."""
from symx.api import B, items_of, from_le, le, cat

M32 = 0xFFFFFFFF

# message word order r(j), r'(j); rotate amounts s(j), s'(j)
R_L = [0, 1, 2, 3, 4, 5, 6, 7, 8, 9, 10, 11, 12, 13, 14, 15,
       7, 4, 13, 1, 10, 6, 15, 3, 12, 0, 9, 5, 2, 14, 11, 8,
       3, 10, 14, 4, 9, 15, 8, 1, 2, 7, 0, 6, 13, 11, 5, 12,
       1, 9, 11, 10, 0, 8, 12, 4, 13, 3, 7, 15, 14, 5, 6, 2,
       4, 0, 5, 9, 7, 12, 2, 10, 14, 1, 3, 8, 11, 6, 15, 13]
R_R = [5, 14, 7, 0, 9, 2, 11, 4, 13, 6, 15, 8, 1, 10, 3, 12,
       6, 11, 3, 7, 0, 13, 5, 10, 14, 15, 8, 12, 4, 9, 1, 2,
       15, 5, 1, 3, 7, 14, 6, 9, 11, 8, 12, 2, 10, 0, 4, 13,
       8, 6, 4, 1, 3, 11, 15, 0, 5, 12, 2, 13, 9, 7, 10, 14,
       12, 15, 10, 4, 1, 5, 8, 7, 6, 2, 13, 14, 0, 3, 9, 11]
S_L = [11, 14, 15, 12, 5, 8, 7, 9, 11, 13, 14, 15, 6, 7, 9, 8,
       7, 6, 8, 13, 11, 9, 7, 15, 7, 12, 15, 9, 11, 7, 13, 12,
       11, 13, 6, 7, 14, 9, 13, 15, 14, 8, 13, 6, 5, 12, 7, 5,
       11, 12, 14, 15, 14, 15, 9, 8, 9, 14, 5, 6, 8, 6, 5, 12,
       9, 15, 5, 11, 6, 8, 13, 12, 5, 12, 13, 14, 11, 8, 5, 6]
S_R = [8, 9, 9, 11, 13, 15, 15, 5, 7, 7, 8, 11, 14, 14, 12, 6,
       9, 13, 15, 7, 12, 8, 9, 11, 7, 7, 12, 7, 6, 15, 13, 11,
       9, 7, 15, 11, 8, 6, 6, 14, 12, 13, 5, 14, 13, 13, 7, 5,
       15, 5, 8, 11, 14, 14, 6, 14, 6, 9, 12, 9, 12, 5, 15, 8,
       8, 5, 12, 9, 12, 5, 14, 6, 8, 13, 6, 5, 15, 13, 11, 11]
K_L = [0x00000000, 0x5A827999, 0x6ED9EBA1, 0x8F1BBCDC, 0xA953FD4E]
K_R = [0x50A28BE6, 0x5C4DD124, 0x6D703EF3, 0x7A6D76E9, 0x00000000]


def _not(x):
    return x ^ M32


def _f(j, x, y, z):
    if j < 16:
        return x ^ y ^ z
    if j < 32:
        return (x & y) | (_not(x) & z)
    if j < 48:
        return (x | _not(y)) ^ z
    if j < 64:
        return (x & z) | (y & _not(z))
    return x ^ (y | _not(z))


def _rol(x, n):
    return ((x << n) & M32) | (x >> (32 - n))


def rmd_compress(h, block):
    """h: 5 words (each already < 2^32); block: 64 bytes -> 5 words"""
    X = [from_le(block[4 * i:4 * i + 4]) for i in range(16)]
    A, B_, C, D, E = h
    A2, B2, C2, D2, E2 = h
    for j in range(80):
        T = (_rol((A + _f(j, B_, C, D) + X[R_L[j]] + K_L[j // 16]) & M32, S_L[j]) + E) & M32
        A, E, D, C, B_ = E, D, _rol(C, 10), B_, T
        T = (_rol((A2 + _f(79 - j, B2, C2, D2) + X[R_R[j]] + K_R[j // 16]) & M32, S_R[j]) + E2) & M32
        A2, E2, D2, C2, B2 = E2, D2, _rol(C2, 10), B2, T
    T = (h[1] + C + D2) & M32
    return [T, (h[2] + D + E2) & M32, (h[3] + E + A2) & M32, (h[4] + A + B2) & M32, (h[0] + B_ + C2) & M32]


RMD_IV = [0x67452301, 0xEFCDAB89, 0x98BADCFE, 0x10325476, 0xC3D2E1F0]


def rmd160(data):
    n = len(data)
    padlen = (55 - n) % 64
    msg = cat(data, b"\x80", b"\x00" * padlen, le(8 * n, 8))
    assert len(msg) % 64 == 0
    h = list(RMD_IV)
    for i in range(0, len(msg), 64):
        h = rmd_compress(h, msg[i:i + 64])
    return cat(*[le(w, 4) for w in h])


def murmur3_x86_32(data, seed):
    c1, c2 = 0xCC9E2D51, 0x1B873593
    d = items_of(data)
    n = len(d)
    h1 = seed & M32
    nblocks = n // 4
    for i in range(nblocks):
        k1 = d[4 * i] | (d[4 * i + 1] << 8) | (d[4 * i + 2] << 16) | (d[4 * i + 3] << 24)
        k1 = (k1 * c1) & M32
        k1 = _rol(k1, 15)
        k1 = (k1 * c2) & M32
        h1 = h1 ^ k1
        h1 = _rol(h1, 13)
        h1 = (h1 * 5 + 0xE6546B64) & M32
    tail = d[4 * nblocks:]
    k1 = 0
    if len(tail) >= 3:
        k1 = k1 ^ (tail[2] << 16)
    if len(tail) >= 2:
        k1 = k1 ^ (tail[1] << 8)
    if len(tail) >= 1:
        k1 = k1 ^ tail[0]
        k1 = (k1 * c1) & M32
        k1 = _rol(k1, 15)
        k1 = (k1 * c2) & M32
        h1 = h1 ^ k1
    h1 = h1 ^ n
    h1 = h1 ^ (h1 >> 16)
    h1 = (h1 * 0x85EBCA6B) & M32
    h1 = h1 ^ (h1 >> 13)
    h1 = (h1 * 0xC2B2AE35) & M32
    h1 = h1 ^ (h1 >> 16)
    return h1


def bip37_bits(data, n_hash_funcs, tweak, size_bytes):
    """list of (byte index, bit mask) BIP37 prescribes for inserting `data`"""
    out = []
    for i in range(n_hash_funcs):
        seed = (i * 0xFBA4C795 + tweak) & M32
        idx = murmur3_x86_32(data, seed) % (size_bytes * 8)
        out.append(idx)
    return out


def validate():
    """the reference must reproduce published vectors before it is used as an oracle"""
    vec = [(b"", "9c1185a5c5e9fc54612808977ee8f548b2258d31"), (b"a", "0bdc9d2d256b3ee9daae347be6f4dc835a467ffe"),
           (b"abc", "8eb208f7e05d987a9b044a8e98c6b087f15a0bfc"), (b"message digest", "5d0689ef49d2fae572b881b123a85ffa21595f36"),
           (b"abcdefghijklmnopqrstuvwxyz", "f71c27109c692c1b56bbdceb5b9d2865b3708dbc"),
           (b"abcdbcdecdefdefgefghfghighijhijkijkljklmklmnlmnomnopnopq", "12a053384a9c0c88e405a06c27dcf49ada62eb2b"),
           (b"ABCDEFGHIJKLMNOPQRSTUVWXYZabcdefghijklmnopqrstuvwxyz0123456789", "b0e20b6e3116640286ed3a87a5713079b21f5189"),
           (b"1234567890" * 8, "9b752e45573d4b39f4dbd3323cab82bf63326bfb")]
    for m, h in vec:
        assert bytes(rmd160(m)).hex() == h, ("ripemd160 reference", m)
    # MurmurHash3_x86_32 vectors (smhasher / widely published)
    mv = [(b"", 0, 0), (b"", 1, 0x514E28B7), (b"", 0xFFFFFFFF, 0x81F16F39), (b"\xff\xff\xff\xff", 0, 0x76293B50),
          (b"\x21\x43\x65\x87", 0, 0xF55B516B), (b"\x21\x43\x65\x87", 0x5082EDEE, 0x2362F9DE), (b"\x21\x43\x65", 0, 0x7E4A8634),
          (b"\x21\x43", 0, 0xA0F7B07A), (b"\x21", 0, 0x72661CF4), (b"\x00\x00\x00\x00", 0, 0x2362F9DE), (b"\x00\x00\x00", 0, 0x85F0B427),
          (b"\x00\x00", 0, 0x30F4C306), (b"\x00", 0, 0x514E28B7)]
    for m, s, h in mv:
        assert murmur3_x86_32(m, s) == h, ("murmur3 reference", m, s)
    return len(vec) + len(mv)
