"""Reference: CheckTransaction (Bitcoin Core consensus/tx_check.cpp) and CTransaction::IsCoinBase /
COutPoint::IsNull, over the field dictionary of refs/wire.py.  Returns bool / SymBool 'is valid'."""
from symx.api import sym_and, sym_or, sym_not, eq, ite
from refs import wire

ZERO32 = b"\x00" * 32


def outpoint_is_null(i):
    return sym_and(eq(i["prev_hash"], ZERO32), i["prev_index"] == 0xFFFFFFFF)


def is_coinbase(tx):
    return len(tx["ins"]) == 1 and outpoint_is_null(tx["ins"][0])


def defects(tx, max_money, max_size=1000000):
    """dict name -> bool/SymBool for each rule of the property statement"""
    d = {}
    d["no-inputs"] = len(tx["ins"]) == 0
    d["no-outputs"] = len(tx["outs"]) == 0
    bad_val = False
    total = 0
    for o in tx["outs"]:
        bad_val = sym_or(bad_val, o["value"] < 0, o["value"] > max_money)
        total = total + o["value"]
        bad_val = sym_or(bad_val, total < 0, total > max_money)
    d["value-out-of-range"] = bad_val
    dup = False
    ins = tx["ins"]
    for a in range(len(ins)):
        for b in range(a + 1, len(ins)):
            dup = sym_or(dup, sym_and(eq(ins[a]["prev_hash"], ins[b]["prev_hash"]), ins[a]["prev_index"] == ins[b]["prev_index"]))
    d["duplicate-inputs"] = dup
    cb = is_coinbase(tx) if ins else False
    if ins:
        n = len(ins[0]["script"])
        d["bad-coinbase-script"] = sym_and(cb, n < 2 or n > 100)
        anynull = False
        for i in ins:
            anynull = sym_or(anynull, outpoint_is_null(i))
        d["null-prevout-in-non-coinbase"] = sym_and(sym_not(cb), anynull)
    d["stripped-size-over-limit"] = len(wire.ser_tx(tx, with_witness=False)) > max_size
    return d


def any_defect(tx, max_money):
    return sym_or(*defects(tx, max_money).values())
