"""Reference: Bitcoin's merkle root (consensus/merkle.cpp, the historical recursive definition) and BIP37's
CPartialMerkleTree construction (merkleblock.cpp).  H is the 64-byte -> 32-byte node hash (double-SHA256)."""
from symx.api import cat, truth


def merkle_root(leaves, H):
    """pairwise hashing, duplicating the last element of odd levels"""
    level = list(leaves)
    if not level:
        raise ValueError("no leaves")
    while len(level) > 1:
        if len(level) % 2:
            level.append(level[-1])
        level = [H(cat(level[i], level[i + 1])) for i in range(0, len(level), 2)]
    return level[0]


def tree_width(n, height):
    return (n + (1 << height) - 1) >> height


def calc_hash(height, pos, txids, H):
    n = len(txids)
    if height == 0:
        return txids[pos]
    left = calc_hash(height - 1, pos * 2, txids, H)
    if pos * 2 + 1 < tree_width(n, height - 1):
        right = calc_hash(height - 1, pos * 2 + 1, txids, H)
    else:
        right = left
    return H(cat(left, right))


def build_partial_tree(txids, matches, H):
    """-> (bits, hashes) in traversal order; `matches` are bool / SymBool (decided by forking)"""
    n = len(txids)
    height = 0
    while tree_width(n, height) > 1:
        height += 1
    bits, hashes = [], []

    def traverse(h, pos):
        parent_of_match = False
        p = pos << h
        while p < ((pos + 1) << h) and p < n:
            if bool(truth(matches[p])):
                parent_of_match = True
            p += 1
        bits.append(parent_of_match)
        if h == 0 or not parent_of_match:
            hashes.append(calc_hash(h, pos, txids, H))
        else:
            traverse(h - 1, pos * 2)
            if pos * 2 + 1 < tree_width(n, h - 1):
                traverse(h - 1, pos * 2 + 1)
    traverse(height, 0)
    return bits, hashes


def bits_to_bytes(bits):
    out = [0] * ((len(bits) + 7) // 8)
    for p, b in enumerate(bits):
        if b:
            out[p // 8] |= 1 << (p % 8)
    return out
