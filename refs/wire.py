"""Reference: Bitcoin wire serialisation (protocol documentation / BIP144 / serialize.h), built from
first principles on byte lists so that it runs on proxies and plain values alike."""
from symx.api import B, items_of, cat, le, be, ite, sym_and


def compact_size(n):
    """WriteCompactSize for concrete or symbolic n < 2^64"""
    if isinstance(n, int):
        if n < 253:
            return bytes([n])
        if n <= 0xFFFF:
            return b"\xfd" + n.to_bytes(2, "little")
        if n <= 0xFFFFFFFF:
            return b"\xfe" + n.to_bytes(4, "little")
        return b"\xff" + n.to_bytes(8, "little")
    # symbolic: the length class is decided by forking (comparisons on a proxy fork)
    if n < 253:
        return B([n])
    if n <= 0xFFFF:
        return cat(b"\xfd", le(n, 2))
    if n <= 0xFFFFFFFF:
        return cat(b"\xfe", le(n, 4))
    return cat(b"\xff", le(n, 8))


def varstr(b):
    return cat(compact_size(len(b)), b)


def ser_txin(i, blank=False):
    return cat(i["prev_hash"], le(i["prev_index"], 4), varstr(b"" if blank else i["script"]), le(i["sequence"], 4))


def ser_txout(o):
    return cat(le(o["value"], 8), varstr(o["script"]))


def ser_tx(tx, with_witness=True):
    """tx: dict(version, ins=[dict(prev_hash, prev_index, script, sequence, witness=[...])], outs=[dict(value, script)], lock_time)"""
    has_wit = with_witness and any(len(i.get("witness", ())) > 0 for i in tx["ins"])
    parts = [le(tx["version"], 4)]
    if has_wit:
        parts.append(b"\x00\x01")
    parts.append(compact_size(len(tx["ins"])))
    for i in tx["ins"]:
        parts.append(ser_txin(i))
    parts.append(compact_size(len(tx["outs"])))
    for o in tx["outs"]:
        parts.append(ser_txout(o))
    if has_wit:
        for i in tx["ins"]:
            w = i.get("witness", ())
            parts.append(compact_size(len(w)))
            for item in w:
                parts.append(varstr(item))
    parts.append(le(tx["lock_time"], 4))
    return cat(*parts)


def ser_header(h):
    """h: dict(version, prev, merkle, time, bits, nonce)"""
    return cat(le(h["version"], 4), h["prev"], h["merkle"], le(h["time"], 4), le(h["bits"], 4), le(h["nonce"], 4))
