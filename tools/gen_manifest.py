#!/usr/bin/env python3
"""Regenerates /verif/MANIFEST.json from the harness modules' META blocks."""
import importlib, json, os, sys
HERE = os.path.dirname(os.path.dirname(os.path.abspath(__file__)))
sys.path.insert(0, HERE)
props = [json.loads(l) for l in open(os.path.join(HERE, "properties.jsonl"))]
checks, na = [], []
NA_REASONS = json.load(open(os.path.join(HERE, "tools", "not_applicable.json")))
for p in props:
    pid = p["id"]
    path = os.path.join(HERE, "harness", pid + ".py")
    if not os.path.exists(path):
        na.append(dict(property_id=pid, reason=NA_REASONS.get(pid, "no solver-based check has been built for this property yet")))
        continue
    m = importlib.import_module("harness." + pid)
    meta = m.META
    checks.append(dict(
        property_id=pid,
        quick_cmd="./vcheck %s --tier quick" % pid,
        thorough_cmd="./vcheck %s --tier thorough" % pid,
        evidence_file="evidence/%s.json" % pid,
        replay_cmd_template="./vcheck %s --replay {path}" % pid,
        engine="symx",
        level_claimed=dict(category="model_checking", text=meta["level_text"], design_ref=meta.get("design_ref", "DESIGN.md section 5, " + pid)),
        level_note=meta["level_note"],
        technique=meta.get("technique", "bounded symbolic execution of the real pycoin functions on z3 bit-vector proxies; z3 decides path-condition AND NOT assertion per path; counterexamples replayed on the uninstrumented code"),
    ))
man = dict(
    version=1,
    setup_cmd="./vcheck selftest",
    hooks=dict(guard="RICHARDKISS_PYCOIN_VERIF", enable="no hooks exist: the checks load /repo's sources through an import hook inside the checker process; nothing in /repo reads the guard variable",
               baseline_off_cmd="tools/baseline.sh", source_commits=[], add_only=True),
    engines=[dict(name="symx", path="symx/", serves_properties=[c["property_id"] for c in checks],
                  kind_free_text="bounded symbolic executor for Python: real pycoin code from /repo runs on z3 bit-vector proxy values, "
                                 "branches are decided by z3 (both feasible sides explored), assertions are discharged per path by z3, "
                                 "counterexample models are replayed on the uninstrumented code under /venv/bin/python")],
    checks=checks,
    not_applicable=na,
    notes="See DESIGN.md. Exit 0 = held on everything explored (INCONCLUSIVE / KNOWN-FINDING lines possible); 1 = replay-confirmed VIOLATION; 2 = harness error (no claim).",
)
json.dump(man, open(os.path.join(HERE, "MANIFEST.json"), "w"), indent=1)
print("checks:", [c["property_id"] for c in checks], "na:", [n["property_id"] for n in na])
