#!/bin/sh
# tools/run_all.sh [quick|thorough] : every registered check, one after the other; prints exit code and summary line
TIER="${1:-quick}"
cd "$(dirname "$0")/.." || exit 2
mkdir -p /tmp/w
for id in $(python3 -c "import json;print(' '.join(c['property_id'] for c in json.load(open('MANIFEST.json'))['checks']))"); do
  s=$(date +%s)
  ./vcheck "$id" --tier "$TIER" > "/tmp/w/all_$id.log" 2>&1
  rc=$?
  e=$(date +%s)
  echo "$id rc=$rc $((e-s))s $(grep -c '^VIOLATION' /tmp/w/all_$id.log) violations | $(grep "^$id $TIER" /tmp/w/all_$id.log | cut -c1-160)"
done
