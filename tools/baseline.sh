#!/bin/sh
# Runs the repository's pinned test suite (no verification guard exists: nothing in /repo reads one)
# and compares the set of passing tests with /root/.vp/BASELINE.json's stable_pass list.
OUT="$(mktemp -d)"
trap 'rm -rf "$OUT"' EXIT
cd /repo || exit 2
unset RICHARDKISS_PYCOIN_VERIF
/venv/bin/python -m pytest -ra -q -p no:cacheprovider --timeout=900 --continue-on-collection-errors --junitxml="$OUT/j.xml" >"$OUT/log" 2>&1
/venv/bin/python - "$OUT/j.xml" <<'PY'
import json, sys, xml.etree.ElementTree as ET
base = json.load(open("/root/.vp/BASELINE.json"))
want = set(base["stable_pass"])
got = set()
for tc in ET.parse(sys.argv[1]).getroot().iter("testcase"):
    if not any(c.tag in ("failure", "error", "skipped") for c in tc):
        got.add("%s::%s" % (tc.get("classname").replace(".", ".", 99).rsplit(".", 1)[0] + "." + tc.get("classname").rsplit(".", 1)[1] if False else tc.get("classname"), tc.get("name")))
def norm(s):
    return s.replace("::", ".")
gotn = {norm(x) for x in got}
missing = [w for w in want if norm(w) not in gotn]
print("baseline: %d expected passing, %d passing now, %d missing" % (len(want), len(got), len(missing)))
for m in missing[:20]:
    print("  MISSING", m)
sys.exit(1 if missing else 0)
PY
