#!/bin/sh
# tools/try_seed.sh <dir-with-patchN.diff+demoN.py> <N> <Cnn> [tier]  : confirm the demo both ways in a scratch worktree, then run the
# check against /repo with the patch applied and undo it straight afterwards.
DIR="$(cd "$1" && pwd)"; N="$2"; PID="$3"; TIER="${4:-quick}"
P="$DIR/patch$N.diff"; D="$DIR/demo$N.py"
[ -f "$DIR/patch.diff" ] && P="$DIR/patch.diff" && D="$(ls $DIR/demo* | head -1)"
if ! git -C /repo apply --check "$P" 2>/dev/null; then echo "PATCH-DOES-NOT-APPLY $P"; exit 3; fi
( cd /tmp && PYTHONPATH=/repo PYCOIN_NATIVE=none timeout 300 /venv/bin/python "$D" >/dev/null 2>&1 ); CLEAN=$?
git -C /repo apply "$P"
( cd /tmp && PYTHONPATH=/repo PYCOIN_NATIVE=none timeout 300 /venv/bin/python "$D" >/dev/null 2>&1 ); BROKEN=$?
echo "demo: clean-exit=$CLEAN patched-exit=$BROKEN"
mkdir -p /tmp/w/evsave && rm -rf /tmp/w/evsave/* && cp -a /verif/evidence/. /tmp/w/evsave/
cd /verif && timeout 1800 ./vcheck "$PID" --tier "$TIER" > /tmp/w/seed_$PID_$N.log 2>&1; RC=$?
git -C /repo checkout -- .
rm -rf /verif/evidence && mkdir -p /verif/evidence && cp -a /tmp/w/evsave/. /verif/evidence/   # evidence committed must come from the unchanged tree
grep -c "^VIOLATION" /tmp/w/seed_$PID_$N.log | sed "s/^/violations=/"
grep "^VIOLATION\|^HARNESS-ERROR\|^INCONCLUSIVE" /tmp/w/seed_$PID_$N.log | cut -c1-220 | head -6
echo "check-exit=$RC"
