"""Small prime-order subgroups of a curve over a 256-bit prime field, so that pycoin's real 33/65-byte SEC encodings, 32-byte scalars and DER
code run unchanged while the group is small enough for the solver to enumerate keys, nonces and hash residues.

The curve is y^2 = x^3 + b over a prime p = 2 (mod 3): it is supersingular with exactly p + 1 points (every element has a unique cube root),
so a subgroup of prime order n exists whenever n divides p + 1.  p is found by a deterministic search among p = 12012*t - 1
(so 7, 11 and 13 divide p + 1, p = 3 mod 4 for pycoin's square roots, p = 2 mod 3), primality by Miller-Rabin with 24 fixed bases.
The point arithmetic used to build the tables is the independent plain-integer reference refs/ec_ref.py."""
from refs import ec_ref

_BASES = (2, 3, 5, 7, 11, 13, 17, 19, 23, 29, 31, 37, 41, 43, 47, 53, 59, 61, 67, 71, 73, 79, 83, 89)


def _is_prime(n):
    if n < 2:
        return False
    for q in _BASES:
        if n % q == 0:
            return n == q
    d, s = n - 1, 0
    while d % 2 == 0:
        d //= 2
        s += 1
    for a in _BASES:
        x = pow(a, d, n)
        if x in (1, n - 1):
            continue
        for _ in range(s - 1):
            x = x * x % n
            if x == n - 1:
                break
        else:
            return False
    return True


def _find_p():
    t = (1 << 255) // 12012 + 1
    while True:
        p = 12012 * t - 1
        if p % 3 == 2 and p % 4 == 3 and _is_prime(p):
            return p
        t += 1


_cache = {}


def curve(n, b=7):
    """-> dict(p, a=0, b, G, n, table) with G of prime order n"""
    if n in _cache:
        return _cache[n]
    if "p" not in _cache:
        _cache["p"] = _find_p()
    p = _cache["p"]
    assert (p + 1) % n == 0 and p.bit_length() == 256
    x = 1
    while True:
        rhs = (x * x * x + b) % p
        y = pow(rhs, (p + 1) // 4, p)
        if y * y % p == rhs and y != 0:
            Q = ec_ref.mul((p + 1) // n, (x, y), p, 0, p + 1)
            if Q is not None:
                break
        x += 1
    assert ec_ref.mul(n, Q, p, 0, p + 1) is None
    table = [None]
    cur = Q
    for k in range(1, n):
        table.append(cur)
        cur = ec_ref.add(cur, Q, p, 0)
    assert cur is None and len(set(table[1:])) == n - 1
    c = dict(p=p, a=0, b=b, G=Q, n=n, table=table)
    _cache[n] = c
    return c
