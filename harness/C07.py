"""C07 - transactions round-trip through the wire format and have stable ids."""
from symx.api import Ob, imp, B, items_of, eq, cat, le, sym_and, sym_or, sym_not, ite
from refs import wire
from harness.common import sym_tx_fields, build_tx, tx_fields_equal, sym_blob

META = dict(
    level_text="Bounded symbolic model checking of the real Tx/TxIn/TxOut/Spendable codecs: for each enumerated shape (number of inputs, outputs, "
               "witness items, script lengths across every compact-size boundary) every field value is symbolic and z3 proves that the bytes equal a "
               "reference BIP144/legacy serialiser, that parsing returns the same fields and re-serialising the same bytes. Hashes are uninterpreted, so "
               "id claims are proved on the preimage.",
    level_note="Trusted: z3, symx proxies and struct/io shims (self-tested), refs/wire.py. Double-SHA256 is an uninterpreted function. Shapes are enumerated "
               "(<= 3 inputs/outputs); bytes of long scripts beyond the first 8 are fixed filler.",
    stubs=["hashlib.sha256 = uninterpreted function (ids are compared as H(H(preimage)) terms)"],
    assumptions=["a codec moves script bytes without looking at them, so for scripts longer than 8 bytes only the first 8 bytes are symbolic"],
    outside=["more than 3 inputs or outputs; input/output COUNTS >= 253 (covered only for script and witness-item lengths)"],
)


def _sha2(ctx, data):
    if ctx.symbolic:
        from symx.shims import hashlib_shim as h
    else:
        import hashlib as h
    return h.sha256(h.sha256(data).digest()).digest()


def compactsize(ctx):
    m = imp("pycoin.satoshi.satoshi_int")
    io = imp("io") if not ctx.symbolic else __import__("symx.shims.io_shim", fromlist=["x"])
    v = ctx.sym_int("v", 0, (1 << 64) - 1)
    f = io.BytesIO()
    m.stream_satoshi_int(f, v)
    b = f.getvalue()
    ctx.check(eq(b, wire.compact_size(v)), "bytes-are-compactsize")
    g = io.BytesIO(cat(b, b"\xAA\xBB"))
    back = m.parse_satoshi_int(g)
    ctx.check(back == v, "parse-stream-identity")
    ctx.check(g.tell() == len(b), "consumed-length-exact")


def tx_roundtrip(ctx, shape, cls="btc"):
    Tx = imp("pycoin.coins.bitcoin.Tx").Tx if cls == "btc" else imp("pycoin.coins.litecoin").LTCTx
    f = sym_tx_fields(ctx, shape)
    tx = build_tx(Tx, f)
    b = tx.as_bin()
    want = wire.ser_tx(f, with_witness=True)
    ctx.check(eq(b, want), "bytes-equal-bip144-or-legacy-serialisation")
    ctx.check(eq(tx.as_bin(include_witness_data=False), wire.ser_tx(f, with_witness=False)), "stripped-bytes-equal-legacy-serialisation")
    tx2 = Tx.from_bin(b)
    ctx.check(tx_fields_equal(tx2, f), "parse-yields-equal-fields")
    ctx.check(eq(tx2.as_bin(), b), "reserialise-identical")
    # ids
    legacy = wire.ser_tx(f, with_witness=False)
    ctx.check(eq(tx.hash(), _sha2(ctx, legacy)), "txid-preimage-is-witness-stripped-serialisation")
    ctx.check(eq(tx.w_hash(), _sha2(ctx, want)), "wtxid-preimage-is-full-serialisation")
    h = tx.hash()
    hexid = tx.id()
    want_hex = "".join("%02x" % 0 for _ in range(0))  # placeholder to keep types obvious
    rev = B(list(reversed(items_of(h))))
    ctx.check(eq(hexid, rev.hex()), "id-is-reversed-hex")
    ctx.check(eq(tx.w_id(), B(list(reversed(items_of(tx.w_hash())))).hex()), "w_id-is-reversed-hex")
    # hex form
    hx = tx.as_hex()
    ctx.check(eq(hx, b.hex()), "as_hex-is-hex-of-as_bin")
    tx3 = Tx.from_hex(hx)
    ctx.check(eq(tx3.as_bin(), b), "from_hex-roundtrip")
    ctx.check(eq(tx.as_bin(), b), "serialising-does-not-modify")


def unspents_ext(ctx, n_in):
    Tx = imp("pycoin.coins.bitcoin.Tx").Tx
    shape = dict(ins=[dict(script=1)] * n_in, outs=[dict(script=2)])
    f = sym_tx_fields(ctx, shape)
    tx = build_tx(Tx, f)
    us = []
    for k in range(n_in):
        val = ctx.sym_int("unspent%d.value" % k, 1, (1 << 64) - 1)
        scr = ctx.sym_bytes("unspent%d.script" % k, 3)
        us.append((val, scr))
    tx.set_unspents([Tx.TxOut(v, s) for v, s in us])
    b = tx.as_bin(include_unspents=True)
    want = cat(wire.ser_tx(f), *[wire.ser_txout(dict(value=v, script=s)) for v, s in us])
    ctx.check(eq(b, want), "bytes-are-tx-followed-by-spent-outputs")
    tx2 = Tx.from_bin(b)
    ctx.check(tx_fields_equal(tx2, f), "parse-yields-equal-fields")
    ctx.check(len(tx2.unspents) == n_in, "unspents-parsed")
    if len(tx2.unspents) == n_in:
        ctx.check(sym_and(*[sym_and(u is not None and u.coin_value == v, u is not None and eq(u.script, s)) for u, (v, s) in zip(tx2.unspents, us)]),
                  "unspents-roundtrip")
    ctx.check(eq(tx2.as_bin(include_unspents=True), b), "reserialise-identical")


def spendable(ctx, form, script_len, wide="all"):
    Sp = imp("pycoin.coins.bitcoin.Spendable").Spendable
    # the text form forks once per decimal digit count of every number: two complementary range choices
    big_val = wide in ("all", "value")
    big_idx = wide in ("all", "index")
    value = ctx.sym_int("coin_value", 0, (1 << 64) - 1 if big_val else 99)
    script = ctx.sym_bytes("script", script_len)
    tx_hash = ctx.sym_bytes("tx_hash", 32)
    idx = ctx.sym_int("tx_out_index", 0, 0xFFFFFFFF if big_val else 9)
    bia = ctx.sym_int("block_index_available", 0, 0xFFFFFFFF if big_idx else 9)
    seems = ctx.sym_bool("does_seem_spent")
    bis = ctx.sym_int("block_index_spent", 0, 0xFFFFFFFF if big_idx else 9)
    s = Sp(value, script, tx_hash, idx, bia, seems, bis)

    def same(t):
        return sym_and(t.coin_value == value, eq(t.script, script), eq(t.tx_hash, tx_hash), t.tx_out_index == idx,
                       t.block_index_available == bia, eq(bool(t.does_seem_spent) if not ctx.symbolic else (t.does_seem_spent != 0), seems),
                       t.block_index_spent == bis)
    if form == "bin":
        try:
            b = s.as_bin(as_spendable=True)
        except AttributeError as e:
            ctx.note("as_bin(as_spendable=True) raised AttributeError: %s" % e)
            ctx.check(False, "binary-form-serialises")
        want = cat(le(value, 8), wire.varstr(script), tx_hash, le(idx, 4), wire.compact_size(bia), B([ite(seems, 1, 0)]), wire.compact_size(bis))
        ctx.check(eq(b, want), "binary-layout")
        t = Sp.from_bin(b)
        ctx.check(same(t), "binary-roundtrip")
    elif form == "text":
        txt = s.as_text()
        t = Sp.from_text(txt)
        ctx.check(same(t), "text-roundtrip")
        ctx.check(eq(t.as_text(), txt), "text-stable")
    else:
        d = s.as_dict()
        t = Sp.from_dict(d)
        ctx.check(same(t), "dict-roundtrip")
    ctx.check(eq(s.as_bin(), cat(le(value, 8), wire.varstr(script))), "plain-binary-is-txout")


LENS = [0, 1, 2, 0xFC, 0xFD, 0xFE, 0xFFFF, 0x10000]


def obligations(tier):
    T = tier == "thorough"
    obs = [Ob("C07.compactsize", compactsize, "every v in [0, 2^64)", expect=["bytes-are-compactsize", "parse-stream-identity"])]
    shapes = []
    # script-length boundaries on one input / one output / one witness item
    for n in LENS:
        shapes.append(("in-script%d" % n, dict(ins=[dict(script=n)], outs=[dict(script=1)])))
        shapes.append(("out-script%d" % n, dict(ins=[dict(script=1)], outs=[dict(script=n)])))
        shapes.append(("wit-item%d" % n, dict(ins=[dict(script=0, witness=[n])], outs=[dict(script=1)])))
    # counts and witness mixtures
    shapes += [
        ("1in-0out", dict(ins=[dict(script=3)], outs=[])),
        ("2in-2out", dict(ins=[dict(script=2), dict(script=0)], outs=[dict(script=3), dict(script=0)])),
        ("3in-3out", dict(ins=[dict(script=1)] * 3, outs=[dict(script=1)] * 3)),
        ("mixed-witness", dict(ins=[dict(script=1, witness=[]), dict(script=0, witness=[0, 2])], outs=[dict(script=1)])),
        ("empty-witness-items", dict(ins=[dict(script=0, witness=[0]), dict(script=0, witness=[0, 0])], outs=[dict(script=1)])),
        ("witness-first-only", dict(ins=[dict(script=0, witness=[1]), dict(script=2, witness=[])], outs=[dict(script=0)])),
    ]
    if T:
        shapes += [
            ("3in-witness-all", dict(ins=[dict(script=0, witness=[1, 2])] * 3, outs=[dict(script=2)] * 2)),
            ("wit-big-items", dict(ins=[dict(script=0, witness=[0xFD, 0x10000, 0])], outs=[dict(script=0xFD)])),
            ("in-0x10001", dict(ins=[dict(script=0x10001)], outs=[dict(script=0xFFFE)])),
        ]
        for a in (0xFC, 0xFD, 0x10000):
            for b in (0xFC, 0xFD):
                shapes.append(("in%d-out%d" % (a, b), dict(ins=[dict(script=a)], outs=[dict(script=b)])))
    for nm, sh in shapes:
        obs.append(Ob("C07.tx-roundtrip." + nm, tx_roundtrip, "shape %s; all 32/64-bit fields, hashes and the first 8 bytes of every script symbolic" % nm,
                      dict(shape=sh), expect=["parse-yields-equal-fields", "reserialise-identical", "txid-preimage-is-witness-stripped-serialisation"], weight=2))
    for nm, sh in shapes[:6] + shapes[-6:]:
        obs.append(Ob("C07.ltc-roundtrip." + nm, tx_roundtrip, "LTCTx.parse, shape %s" % nm, dict(shape=sh, cls="ltc"), expect=["parse-yields-equal-fields"]))
    for n in (1, 2, 3):
        obs.append(Ob("C07.unspents-ext.%din" % n, unspents_ext, "%d inputs with non-zero spent amounts appended" % n, dict(n_in=n), expect=["unspents-roundtrip"]))
    for form in ("bin", "text", "dict"):
        for sl in ((0, 4) if not T else (0, 1, 4, 0xFD)):
            if form == "text":
                if sl > 4:
                    continue
                for wide in ("value", "index"):
                    obs.append(Ob("C07.spendable.text.script%d.wide-%s" % (sl, wide), spendable,
                                  "Spendable text form; %s full-range (64/32-bit), the other numbers one digit; %d-byte script" % (
                                      "coin_value and tx_out_index" if wide == "value" else "both block indexes", sl),
                                  dict(form=form, script_len=sl, wide=wide), expect=["text-roundtrip"], weight=4, max_paths=30000, deadline_s=300))
                continue
            obs.append(Ob("C07.spendable.%s.script%d" % (form, sl), spendable, "Spendable %s form; 64-bit value, 32-bit indices, %d-byte script, all symbolic" % (form, sl),
                          dict(form=form, script_len=sl), expect=["plain-binary-is-txout"], weight=4, max_paths=30000, deadline_s=300))
    return obs
