"""C20 - context-free transaction checks accept exactly the well-formed transactions."""
from symx.api import Ob, imp, B, items_of, eq, cat, sym_and, sym_or, sym_not, ite
from refs import wire, check_tx as ref
from harness.common import sym_tx_fields, build_tx, filler

META = dict(
    level_text="Bounded symbolic model checking of the real Tx.check / is_coinbase / bad_solution_count against a transcription of Bitcoin Core's "
               "CheckTransaction: for each enumerated shape every output value (signed 72-bit), outpoint hash and index is symbolic; two-sided (every "
               "defect rejected, everything else of total size <= 1,000,000 accepted).",
    level_note="Trusted: z3, symx proxies, refs/check_tx.py. Shapes (<= 3 inputs, <= 3 outputs, listed script lengths) are enumerated; size rule checked with "
               "one large mostly-concrete script at 999,999 / 1,000,000 / 1,000,001 bytes.",
    stubs=[], assumptions=[],
    outside=["more than 3 inputs/outputs", "acceptance of transactions whose stripped size is <= 1,000,000 but whose total size is larger (the property leaves it open)"],
)


def _cls(coin):
    if coin == "grs":
        return imp("pycoin.coins.groestlcoin.Tx").Tx
    return imp("pycoin.coins.bitcoin.Tx").Tx


def check_two_sided(ctx, n_in, n_out, cb_script_len=None, coin="btc", extra_script=0, in_script=1):
    Tx = _cls(coin)
    VFE = imp("pycoin.coins.exceptions").ValidationFailureError
    shape = dict(ins=[dict(script=(cb_script_len if (k == 0 and cb_script_len is not None) else in_script)) for k in range(n_in)],
                 outs=[dict(script=(extra_script if k == 0 else 1)) for k in range(n_out)])
    f = sym_tx_fields(ctx, shape)
    # values: signed, beyond 64 bits so that negative / overflowing totals are points of the space
    for k, o in enumerate(f["outs"]):
        o["value"] = ctx.sym_int("out%d.value_s" % k, -(1 << 71), (1 << 71) - 1)
    tx = build_tx(Tx, f)
    before = None
    if all(not_neg_concrete(o["value"]) for o in f["outs"]):
        pass
    want_bad = ref.any_defect(f, int(Tx.MAX_MONEY))
    try:
        tx.check()
        rejected = False
    except VFE:
        rejected = True
    ctx.known_class("F16-null-outpoint-ignores-index",
                    sym_or(*[sym_and(eq(i["prev_hash"], ref.ZERO32), i["prev_index"] != 0xFFFFFFFF) for i in f["ins"]]) if f["ins"] else False)
    if rejected:
        ctx.check(want_bad, "rejects-only-transactions-with-a-defect")
    else:
        ctx.check(sym_not(want_bad), "accepts-only-transactions-without-defect")
    # coinbase detection
    if f["ins"]:
        ctx.check(eq(bool(tx.is_coinbase()), ref.is_coinbase(f)), "is_coinbase-agrees-with-consensus")
        if tx.is_coinbase():
            ctx.check(tx.bad_solution_count() == 0, "coinbase-has-no-unsigned-inputs")


def not_neg_concrete(v):
    return isinstance(v, int) and v >= 0


def check_pure(ctx, n_in, n_out):
    Tx = _cls("btc")
    VFE = imp("pycoin.coins.exceptions").ValidationFailureError
    shape = dict(ins=[dict(script=2)] * n_in, outs=[dict(script=1)] * n_out)
    f = sym_tx_fields(ctx, shape)
    tx = build_tx(Tx, f)
    b = tx.as_bin()
    try:
        tx.check()
    except VFE:
        pass
    ctx.check(eq(tx.as_bin(), b), "check-does-not-modify")
    ctx.check(eq(b, wire.ser_tx(f)), "fields-intact")


def size_rule(ctx, size):
    """one input, one output whose script makes the stripped serialisation exactly `size` bytes"""
    Tx = _cls("btc")
    VFE = imp("pycoin.coins.exceptions").ValidationFailureError
    base = dict(ins=[dict(script=1)], outs=[dict(script=0)])
    overhead = 4 + 1 + (32 + 4 + 1 + 1 + 4) + 1 + 8 + 4   # without the output script and its length prefix
    n = size - overhead - 5   # 0xfe-prefixed length (5 bytes) for scripts > 65535
    shape = dict(ins=[dict(script=1)], outs=[dict(script=n, head=4)])
    f = sym_tx_fields(ctx, shape)
    f["outs"][0]["value"] = ctx.sym_int("value", 0, int(Tx.MAX_MONEY))
    ctx.assume(sym_not(ref.outpoint_is_null(f["ins"][0])))
    ctx.known_class("F16-null-outpoint-ignores-index", eq(f["ins"][0]["prev_hash"], ref.ZERO32))
    tx = build_tx(Tx, f)
    assert len(wire.ser_tx(f, with_witness=False)) == size, len(wire.ser_tx(f, with_witness=False))
    try:
        tx.check()
        rejected = False
    except VFE:
        rejected = True
    ctx.check(rejected == (size > 1000000), "size-limit-at-1000000")


def obligations(tier):
    T = tier == "thorough"
    obs = []
    combos = [(0, 1), (1, 0), (1, 1), (1, 2), (2, 1), (2, 2), (1, 3), (3, 1)] + ([(3, 3), (2, 3), (3, 2), (0, 0)] if T else [])
    for n_in, n_out in combos:
        obs.append(Ob("C20.check.%din-%dout" % (n_in, n_out), check_two_sided, "%d inputs x %d outputs; values signed 72-bit, outpoints symbolic" % (n_in, n_out),
                      dict(n_in=n_in, n_out=n_out), weight=3))
    for n_in, n_out in [(2, 1), (3, 1)] + ([(2, 2), (3, 3)] if T else []):
        for isl in (2, 100):
            obs.append(Ob("C20.check.%din-%dout.inscript%d" % (n_in, n_out, isl), check_two_sided,
                          "%d inputs with %d-byte scripts (a valid coinbase script length) x %d outputs" % (n_in, isl, n_out),
                          dict(n_in=n_in, n_out=n_out, in_script=isl), weight=3))
    for l in (0, 1, 2, 3, 99, 100, 101) + ((50, 102, 520) if T else ()):
        obs.append(Ob("C20.coinbase-script.len%d" % l, check_two_sided, "1 input with script of %d bytes (coinbase iff null outpoint), 1 output" % l,
                      dict(n_in=1, n_out=1, cb_script_len=l), expect=["is_coinbase-agrees-with-consensus"]))
    obs.append(Ob("C20.check.grs.1in-2out", check_two_sided, "Groestlcoin MAX_MONEY (105,000,000 coins)", dict(n_in=1, n_out=2, coin="grs")))
    if T:
        obs.append(Ob("C20.check.grs.2in-3out", check_two_sided, "Groestlcoin MAX_MONEY", dict(n_in=2, n_out=3, coin="grs")))
    for n_in, n_out in [(1, 1), (2, 2)] + ([(3, 3)] if T else []):
        obs.append(Ob("C20.pure.%din-%dout" % (n_in, n_out), check_pure, "check() leaves as_bin() unchanged", dict(n_in=n_in, n_out=n_out), expect=["check-does-not-modify"]))
    for size in (999999, 1000000, 1000001):
        obs.append(Ob("C20.size.%d" % size, size_rule, "stripped serialisation of exactly %d bytes (script content concrete filler beyond 4 bytes)" % size,
                      dict(size=size), expect=["size-limit-at-1000000"], weight=6, deadline_s=600))
    return obs
