"""C18 - text parsing is total, faithful and keeps kinds apart (over an abstract Base58Check bijection and key-constructor contracts)."""
from symx.api import Ob, imp, B, S, items_of, eq, cat, be, from_be, sym_and, sym_or, sym_not, ite, truth

P = 2 ** 256 - 2 ** 32 - 977
N = 0xFFFFFFFFFFFFFFFFFFFFFFFFFFFFFFFEBAAEDCE6AF48A03BBFD25E8CD0364141

META = dict(
    level_text="Bounded symbolic checking of the real ParseAPI entry points: (a) for a validly checksummed Base58 payload of every listed length carrying "
               "each of the network's prefixes (abstract Base58Check: the payload is symbolic), every checksummed-kind parser and every catch-all parser "
               "returns an object or None and never raises, accepts only payloads of the right length/contents, and never reads a payload of one kind as "
               "another kind; (b) for every text of up to 4 characters over an alphabet of digits, hex letters, separators and keywords, the numeric / "
               "public-pair / SEC / seed / electrum parsers and the catch-all parsers never raise.",
    level_note="Trusted: z3, symx (incl. its int()/hex text models, self-tested against CPython). Key constructors are contract stubs: a secret exponent is "
               "accepted iff 1 <= e < n (InvalidSecretExponentError otherwise), decompression raises ValueError when no curve point exists, "
               "contains_point is an uninterpreted predicate. BIP32Node.deserialize is the REAL code (over the abstract group).",
    stubs=["Base58Check = abstract bijection", "network.keys.private/public = documented contracts of Key.__init__ / from_sec", "curve = abstract group / uninterpreted predicates",
           "hashes = uninterpreted"],
    assumptions=[], outside=["text longer than 4 characters in the free-text obligations; non-ASCII text", "Bech32 text (C11) and script compilation (wrapped in try/except in pycoin)",
                             "re-serialisation faithfulness of parsed objects (blob-level round trips are C09/C10/C08)"],
)


class Token(object):
    def __init__(self, kind, *a, **k):
        self.kind, self.a = kind, a
        for kk, v in k.items():
            setattr(self, kk, v)


class _Gen(object):
    """curve contract for ParseAPI.public_pair / from_sec"""

    def __init__(self, ctx):
        self.ctx = ctx
        self.n = 0

    def p(self):
        return P

    def order(self):
        return N

    def points_for_x(self, x):
        self.n += 1
        if not bool(truth(self.ctx.sym_bool("x_has_point_%d" % self.n))):
            raise ValueError("no y value for x")
        y = self.ctx.sym_int("y_%d" % self.n, 1, P - 1)
        return ((x, y), (x, P - y))

    def contains_point(self, x, y):
        self.n += 1
        return bool(truth(self.ctx.sym_bool("on_curve_%d" % self.n)))

    def Point(self, x, y):
        return (x, y)


def _mk_api(ctx, with_hd=True):
    ParseAPI = imp("pycoin.networks.ParseAPI").ParseAPI
    K = imp("pycoin.key.Key")
    sec = imp("pycoin.encoding.sec")
    gen = _Gen(ctx)

    class Keys(object):
        InvalidSecretExponentError = K.InvalidSecretExponentError

        def private(self, se, is_compressed=True):
            if bool(truth(sym_or(se < 1, se >= N))):
                raise K.InvalidSecretExponentError()
            return Token("private", se, is_compressed, _generator=gen)

        def public(self, item, is_compressed=None):
            if isinstance(item, tuple):
                return Token("public", item)
            return Token("public", sec.sec_to_public_pair(item, gen))     # real SEC decoder; may raise EncodingError / ValueError

        def bip32_seed(self, ms):
            return Token("bip32_seed", ms)

        hd_seed = bip32_seed

        def electrum_seed(self, seed=None, **kw):
            return Token("electrum_seed", seed)

        def electrum_private(self, master_private_key=None, **kw):
            return Token("electrum_private", master_private_key)

        def electrum_public(self, master_public_key=None, **kw):
            return Token("electrum_public", master_public_key)
    keys = Keys()
    if with_hd:
        from harness import groupstub
        G = groupstub.make(ctx)
        Node = imp("pycoin.key.BIP32Node").BIP32Node

        class _N(object):
            def bip32_as_string(self, blob, as_private):
                return ("X", blob)
        NodeT = Node.make_subclass("T", _N(), G)
        G.points_for_x = gen.points_for_x
        keys.bip32_deserialize = NodeT.deserialize
        keys.bip49_deserialize = NodeT.deserialize
        keys.bip84_deserialize = NodeT.deserialize

    class Net(object):
        pass
    net = Net()
    net.keys = keys
    contract = imp("pycoin.networks.ContractAPI").ContractAPI
    tools = imp("pycoin.coins.bitcoin.ScriptTools").BitcoinScriptTools
    net.contract = contract(net, tools)
    net.script = tools
    api = ParseAPI(net, bip32_prv_prefix=bytes.fromhex("0488ade4"), bip32_pub_prefix=bytes.fromhex("0488b21e"),
                   bip49_prv_prefix=bytes.fromhex("049d7878"), bip49_pub_prefix=bytes.fromhex("049d7cb2"),
                   bip84_prv_prefix=bytes.fromhex("04b2430c"), bip84_pub_prefix=bytes.fromhex("04b24746"),
                   wif_prefix=b"\x80", address_prefix=b"\x00", pay_to_script_prefix=b"\x05", bech32_hrp="bc", sec_prefix="BTCSEC:")
    net.parse = api
    return api, net


PREFIXES = {"wif": b"\x80", "p2pkh": b"\x00", "p2sh": b"\x05", "xprv": bytes.fromhex("0488ade4"), "xpub": bytes.fromhex("0488b21e"),
            "yprv": bytes.fromhex("049d7878"), "zpub": bytes.fromhex("04b24746"), "other": b"\x42"}
CHECKSUMMED = ["wif", "p2pkh", "p2sh", "bip32_prv", "bip32_pub", "bip32", "bip49", "bip84", "address", "payable", "hierarchical_key", "private_key", "secret", "__call__"]


def checksummed(ctx, prefix_kind, body_len):
    api, net = _mk_api(ctx)
    payload = cat(PREFIXES[prefix_kind], ctx.sym_bytes("body", body_len))
    api.parse_b58_hashed = lambda s: payload
    for name in CHECKSUMMED:
        f = getattr(api, name)
        try:
            r = f("TOKEN")
            raised = None
        except Exception as e:
            raised = e
            r = None
        if raised is not None:
            ctx.note("parse.%s raised %r on a payload of prefix %s + %d bytes" % (name, raised, prefix_kind, body_len))
        ctx.check(raised is None, "parse.%s-never-raises" % name)
        if r is None:
            continue
        # whatever is returned has the kind of the payload's prefix and the right length
        if name in ("wif", "private_key"):
            ctx.check(prefix_kind == "wif" and body_len in (32, 33), "wif-only-from-wif-payload-of-32-or-33-bytes")
        elif name in ("p2pkh",):
            ctx.check(prefix_kind == "p2pkh" and body_len == 20, "p2pkh-only-from-its-prefix-and-20-bytes")
        elif name in ("p2sh",):
            ctx.check(prefix_kind == "p2sh" and body_len == 20, "p2sh-only-from-its-prefix-and-20-bytes")
        elif name in ("address", "payable"):
            ctx.check(prefix_kind in ("p2pkh", "p2sh") and body_len == 20, "address-only-from-address-payloads")
        elif name in ("bip32_prv",):
            ctx.check(prefix_kind == "xprv" and body_len == 74, "xprv-only-from-78-byte-xprv-blob")
        elif name in ("bip32_pub",):
            ctx.check(prefix_kind == "xpub" and body_len == 74, "xpub-only-from-78-byte-xpub-blob")
        elif name in ("bip32", "bip49", "bip84", "hierarchical_key"):
            ctx.check(prefix_kind in ("xprv", "xpub", "yprv", "zpub") and body_len == 74, "extended-key-only-from-78-byte-blob")
        elif name in ("secret", "__call__"):
            ctx.check((prefix_kind == "wif" and body_len in (32, 33)) or (prefix_kind in ("xprv", "xpub", "yprv", "zpub") and body_len == 74)
                      or (name == "__call__" and prefix_kind in ("p2pkh", "p2sh") and body_len == 20), "catch-all-returns-only-well-formed-kinds")


ALPHA = "0159afAF:/,xEHP -_"
FREE = ["as_number", "secret_exponent", "public_pair", "sec", "bip32_seed", "hd_seed", "electrum_seed", "electrum_prv", "electrum_pub", "private_key", "public_key",
        "hierarchical_key", "secret"]


def free_text(ctx, n, which):
    api, net = _mk_api(ctx, with_hd=False)
    api.parse_b58_hashed = lambda s: None          # not a checksummed string
    text = ctx.sym_str("text", n, alphabet=ALPHA) if n else ""
    f = getattr(api, which)
    try:
        r = f(text)
        raised = None
    except Exception as e:
        raised = e
    if raised is not None:
        ctx.note("parse.%s raised %r" % (which, raised))
    ctx.check(raised is None, "parse.%s-never-raises" % which)


def keyword_text(ctx, which, suffix):
    """public pairs written with the even/odd keywords: '<x>/even', '<x>,odd' for a symbolic 2-character x"""
    api, net = _mk_api(ctx, with_hd=False)
    api.parse_b58_hashed = lambda s: None
    x = ctx.sym_str("x", 2, alphabet="0159af")
    text = S(items_of(x) + [ord(c) for c in suffix])
    try:
        getattr(api, which)(text)
        raised = None
    except Exception as e:
        raised = e
    if raised is not None:
        ctx.note("parse.%s raised %r" % (which, raised))
    ctx.check(raised is None, "parse.%s-never-raises" % which)


def obligations(tier):
    T = tier == "thorough"
    obs = []
    lens = {"wif": [0, 5, 31, 32, 33, 34], "p2pkh": [0, 19, 20, 21], "p2sh": [19, 20, 21], "xprv": [0, 8, 40, 73, 74, 75], "xpub": [0, 73, 74, 75], "yprv": [73, 74],
            "zpub": [74], "other": [20, 32, 74]}
    for kind, ls in lens.items():
        for L in ls:
            obs.append(Ob("C18.checksummed.%s.body%d" % (kind, L), checksummed, "validly checksummed payload: %s prefix + every %d-byte body, through 14 entry points" % (kind, L),
                          dict(prefix_kind=kind, body_len=L), weight=3, max_paths=50000, deadline_s=600))
    for which in FREE:
        for n in ((0, 1, 2, 3) if not T else (0, 1, 2, 3, 4)):
            obs.append(Ob("C18.free-text.%s.len%d" % (which, n), free_text, "parse.%s on every %d-character text over %r" % (which, n, ALPHA), dict(n=n, which=which),
                          weight=1 + n, max_paths=200000, deadline_s=900))
    for which in ("public_pair", "public_key", "__call__"):
        for suffix in ("/even", ",odd", "/odd", "/1", ",5"):
            obs.append(Ob("C18.keyword.%s.%s" % (which, suffix.replace("/", "slash-").replace(",", "comma-")), keyword_text,
                          "parse.%s on '<2 hex/decimal chars>%s'" % (which, suffix), dict(which=which, suffix=suffix), weight=2))
    return obs
