"""C18 - text parsing is total, faithful and keeps kinds apart (over an abstract Base58Check bijection and key-constructor contracts)."""
from symx.api import Ob, imp, B, S, items_of, eq, cat, be, from_be, sym_and, sym_or, sym_not, ite, truth

P = 2 ** 256 - 2 ** 32 - 977
N = 0xFFFFFFFFFFFFFFFFFFFFFFFFFFFFFFFEBAAEDCE6AF48A03BBFD25E8CD0364141

META = dict(
    level_text="Bounded symbolic checking of the real ParseAPI entry points: (a) for a validly checksummed Base58 payload of every listed length carrying "
               "each of the network's prefixes (abstract Base58Check: the payload is symbolic), every checksummed-kind parser and every catch-all parser "
               "returns an object or None and never raises, accepts only payloads of the right length/contents, and never reads a payload of one kind as "
               "another kind; (b) for every text of up to 4 characters over an alphabet of digits, hex letters, separators and keywords, the numeric / "
               "public-pair / SEC / seed / electrum parsers and the catch-all parsers never raise.",
    level_note="Trusted: z3, symx (incl. its int()/hex text models, self-tested against CPython). Key constructors are contract stubs: a secret exponent is "
               "accepted iff 1 <= e < n (InvalidSecretExponentError otherwise), decompression raises ValueError when no curve point exists, "
               "contains_point is an uninterpreted predicate. BIP32Node.deserialize is the REAL code (over the abstract group).",
    stubs=["Base58Check = abstract bijection", "Bech32 decoder = arbitrary (hrp, version, program, flavour)", "network.keys.private/public = documented contracts of Key.__init__ / from_sec", "curve = abstract group / uninterpreted predicates",
           "hashes = uninterpreted"],
    assumptions=[], outside=["text longer than 4 characters in the free-text obligations; non-ASCII text", "the character-level Bech32 decoder (C11: here it is an arbitrary (hrp, version, program, flavour) tuple) and script compilation (wrapped in try/except in pycoin)",
                             "re-serialisation faithfulness of parsed objects (blob-level round trips are C09/C10/C08)"],
)


class Token(object):
    def __init__(self, kind, *a, **k):
        self.kind, self.a = kind, a
        for kk, v in k.items():
            setattr(self, kk, v)


class _Gen(object):
    """curve contract for ParseAPI.public_pair / from_sec"""

    def __init__(self, ctx):
        self.ctx = ctx
        self.n = 0

    def p(self):
        return P

    def order(self):
        return N

    def points_for_x(self, x):
        self.n += 1
        if not bool(truth(self.ctx.sym_bool("x_has_point_%d" % self.n))):
            raise ValueError("no y value for x")
        y = self.ctx.sym_int("y_%d" % self.n, 1, P - 1)
        return ((x, y), (x, P - y))

    def contains_point(self, x, y):
        self.n += 1
        return bool(truth(self.ctx.sym_bool("on_curve_%d" % self.n)))

    def Point(self, x, y):
        return (x, y)


CONFIGS = {
    # name -> (wif, address, pay-to-script) prefixes; the 4-byte extended-key prefixes are Bitcoin's in every configuration
    "btc": (b"\x80", b"\x00", b"\x05"),
    "long-p2sh": (b"\x9e", b"\x1e", b"\x00\x64"),          # address and pay-to-script prefixes of different lengths (PIVX/MZC style)
    "shared": (b"\x80", b"\x80", b"\x80\x05"),             # WIF and address share the prefix byte; the pay-to-script prefix extends it
}
_REAL = {}


def _mk_api(ctx, with_hd=True, config="btc", bech32=None):
    mod = imp("pycoin.networks.ParseAPI")
    ParseAPI = mod.ParseAPI
    _REAL.setdefault("parse_bech32", mod.parse_bech32)
    mod.parse_bech32 = bech32 if bech32 is not None else _REAL["parse_bech32"]
    K = imp("pycoin.key.Key")
    sec = imp("pycoin.encoding.sec")
    gen = _Gen(ctx)

    class Keys(object):
        InvalidSecretExponentError = K.InvalidSecretExponentError

        def private(self, se, is_compressed=True):
            if bool(truth(sym_or(se < 1, se >= N))):
                raise K.InvalidSecretExponentError()
            return Token("private", se, is_compressed, _generator=gen)

        def public(self, item, is_compressed=None):
            if isinstance(item, tuple):
                return Token("public", item)
            return Token("public", sec.sec_to_public_pair(item, gen))     # real SEC decoder; may raise EncodingError / ValueError

        def bip32_seed(self, ms):
            return Token("bip32_seed", ms)

        hd_seed = bip32_seed

        def electrum_seed(self, seed=None, **kw):
            return Token("electrum_seed", seed)

        def electrum_private(self, master_private_key=None, **kw):
            return Token("electrum_private", master_private_key)

        def electrum_public(self, master_public_key=None, **kw):
            return Token("electrum_public", master_public_key)
    keys = Keys()
    if with_hd:
        from harness import groupstub
        G = groupstub.make(ctx)
        Node = imp("pycoin.key.BIP32Node").BIP32Node

        class _N(object):
            def bip32_as_string(self, blob, as_private):
                return ("X", blob)
        NodeT = Node.make_subclass("T", _N(), G)
        G.points_for_x = gen.points_for_x
        keys.bip32_deserialize = NodeT.deserialize
        keys.bip49_deserialize = NodeT.deserialize
        keys.bip84_deserialize = NodeT.deserialize

    class Net(object):
        pass
    net = Net()
    net.keys = keys
    contract = imp("pycoin.networks.ContractAPI").ContractAPI
    tools = imp("pycoin.coins.bitcoin.ScriptTools").BitcoinScriptTools
    net.contract = contract(net, tools)
    net.script = tools
    wif, addr, p2s = CONFIGS[config]
    api = ParseAPI(net, bip32_prv_prefix=bytes.fromhex("0488ade4"), bip32_pub_prefix=bytes.fromhex("0488b21e"),
                   bip49_prv_prefix=bytes.fromhex("049d7878"), bip49_pub_prefix=bytes.fromhex("049d7cb2"),
                   bip84_prv_prefix=bytes.fromhex("04b2430c"), bip84_pub_prefix=bytes.fromhex("04b24746"),
                   wif_prefix=wif, address_prefix=addr, pay_to_script_prefix=p2s, bech32_hrp="bc", sec_prefix="BTCSEC:")
    net.parse = api
    return api, net


XP = {"xprv": bytes.fromhex("0488ade4"), "xpub": bytes.fromhex("0488b21e"), "yprv": bytes.fromhex("049d7878"), "zpub": bytes.fromhex("04b24746")}
CHECKSUMMED = ["wif", "p2pkh", "p2sh", "bip32_prv", "bip32_pub", "bip32", "bip49", "bip84", "address", "payable", "hierarchical_key", "private_key", "secret", "__call__"]


def _prefix(config, kind):
    wif, addr, p2s = CONFIGS[config]
    return dict(wif=wif, p2pkh=addr, p2sh=p2s, other=b"\x42", **XP)[kind]


def _starts(payload, prefix):
    n = len(prefix)
    return len(payload) >= n and eq(payload[:n], prefix)


def _spec(ctx, config, payload):
    """what the property demands: which checksummed kinds this payload is a well-formed member of (each a bool or a symbolic condition)"""
    wif, addr, p2s = CONFIGS[config]
    L = len(payload)
    spec = {}
    spec["p2pkh"] = sym_and(_starts(payload, addr), L == len(addr) + 20)
    spec["p2sh"] = sym_and(_starts(payload, p2s), L == len(p2s) + 20)
    w = False
    if L - len(wif) in (32, 33) and L >= len(wif):
        e = from_be(payload[len(wif):len(wif) + 32])
        w = sym_and(_starts(payload, wif), sym_and(e >= 1, e < N))
        if L - len(wif) == 33:
            w = sym_and(w, payload[L - 1] == 1)
    spec["wif"] = w
    return spec


def _holds(ctx, accepted, cond, label):
    """accepted (concrete on this path) must coincide with the specification's condition"""
    ctx.check(cond if accepted else sym_not(cond), label)


def checksummed(ctx, prefix_kind, body_len, config="btc"):
    api, net = _mk_api(ctx, config=config, bech32=lambda s: None)
    payload = cat(_prefix(config, prefix_kind), ctx.sym_bytes("body", body_len))
    api.parse_b58_hashed = lambda s: payload
    spec = _spec(ctx, config, payload)
    wif, addr, p2s = CONFIGS[config]
    is_x = prefix_kind in XP and body_len == 74
    for name in CHECKSUMMED:
        f = getattr(api, name)
        try:
            r = f("TOKEN")
            raised = None
        except Exception as e:
            raised = e
            r = None
        if raised is not None:
            ctx.note("parse.%s raised %r on a payload of prefix %s + %d bytes" % (name, raised, prefix_kind, body_len))
        ctx.check(raised is None, "parse.%s-never-raises" % name)
        acc = r is not None
        if name in ("wif", "private_key"):
            _holds(ctx, acc, spec["wif"], "%s-accepts-exactly-well-formed-wif-payloads" % name)
            if acc:
                k = len(wif)
                ctx.check(sym_and(r.kind == "private", r.a[0] == from_be(payload[k:k + 32]), r.a[1] == (len(payload) - k == 33)), "wif-yields-the-encoded-exponent-and-compression-flag")
        elif name == "p2pkh":
            _holds(ctx, acc, spec["p2pkh"], "p2pkh-accepts-exactly-its-prefix-plus-20-bytes")
            if acc:
                ctx.check(eq(r.script(), cat(b"\x76\xa9\x14", payload[len(addr):], b"\x88\xac")), "p2pkh-yields-the-script-for-the-encoded-hash")
        elif name == "p2sh":
            _holds(ctx, acc, spec["p2sh"], "p2sh-accepts-exactly-its-prefix-plus-20-bytes")
            if acc:
                ctx.check(eq(r.script(), cat(b"\xa9\x14", payload[len(p2s):], b"\x87")), "p2sh-yields-the-script-for-the-encoded-hash")
        elif name in ("address", "payable"):
            _holds(ctx, acc, sym_or(spec["p2pkh"], spec["p2sh"]), "%s-accepts-exactly-address-payloads" % name)
            if acc:
                want = ite(spec["p2pkh"], 0, 1) if not isinstance(spec["p2pkh"], bool) else (0 if spec["p2pkh"] else 1)
                sc = r.script()
                ctx.check(sym_or(sym_and(spec["p2pkh"], eq(sc, cat(b"\x76\xa9\x14", payload[len(addr):len(addr) + 20], b"\x88\xac"))),
                                 sym_and(spec["p2sh"], eq(sc, cat(b"\xa9\x14", payload[len(p2s):len(p2s) + 20], b"\x87")))), "%s-yields-the-script-of-the-payload-kind" % name)
        elif name == "bip32_prv":
            if acc:
                ctx.check(prefix_kind == "xprv" and body_len == 74, "xprv-only-from-78-byte-xprv-blob")
        elif name == "bip32_pub":
            if acc:
                ctx.check(prefix_kind == "xpub" and body_len == 74, "xpub-only-from-78-byte-xpub-blob")
        elif name in ("bip32", "bip49", "bip84", "hierarchical_key"):
            if acc:
                ctx.check(is_x, "extended-key-only-from-78-byte-blob")
        elif name in ("secret", "__call__"):
            ok = sym_or(spec["wif"], is_x)
            if name == "__call__":
                ok = sym_or(ok, spec["p2pkh"], spec["p2sh"])
            if acc:
                ctx.check(ok, "catch-all-returns-only-well-formed-kinds")
            else:
                # a well-formed WIF or address must not be lost by the catch-all parsers
                ctx.check(sym_not(sym_or(spec["wif"], sym_or(spec["p2pkh"], spec["p2sh"]) if name == "__call__" else False)), "catch-all-accepts-well-formed-wif-and-addresses")


SEGWIT = {"p2pkh_segwit": (0, 20, "BECH32"), "p2sh_segwit": (0, 32, "BECH32"), "p2tr": (1, 32, "BECH32M")}


def bech32(ctx, data_len, hrp_kind):
    """abstract Bech32: the decoder returns an arbitrary (hrp, witness version, program, checksum flavour); every segwit and catch-all parser"""
    b32 = imp("pycoin.contrib.bech32m")
    hrp = {"own": "bc", "other": "tb", "prefix": "b", "longer": "bcx"}[hrp_kind]
    version = ctx.sym_int("version", 0, 31)
    flavour = ctx.choose("flavour", ["BECH32", "BECH32M"])
    prog = ctx.sym_bytes("program", data_len)
    tup = (hrp, version, prog, getattr(b32.Encoding, flavour))
    api, net = _mk_api(ctx, with_hd=False, bech32=lambda s: tup)
    api.parse_b58_hashed = lambda s: None
    accepted = []
    for name in ("p2pkh_segwit", "p2sh_segwit", "p2tr", "address", "payable", "__call__"):
        try:
            r = getattr(api, name)("TOKEN")
            raised = None
        except Exception as e:
            raised, r = e, None
        if raised is not None:
            ctx.note("parse.%s raised %r" % (name, raised))
        ctx.check(raised is None, "parse.%s-never-raises" % name)
        acc = r is not None
        conds = {k: sym_and(hrp == "bc", version == v, data_len == n, flavour == fl) for k, (v, n, fl) in SEGWIT.items()}
        if name in SEGWIT:
            _holds(ctx, acc, conds[name], "%s-accepts-exactly-its-version-length-and-checksum-flavour" % name)
            if acc:
                accepted.append(name)
                v, n, fl = SEGWIT[name]
                ctx.check(eq(r.script(), cat(B([0x50 + v if v else 0, n]), prog)), "%s-yields-the-witness-program-script" % name)
        else:
            _holds(ctx, acc, sym_or(*conds.values()), "%s-accepts-exactly-well-formed-segwit-addresses" % name)
            if acc:
                ctx.check(eq(r.script(), cat(B([ite(version == 0, 0, 0x50 + version), data_len]), prog)), "%s-yields-the-witness-program-script" % name)
    ctx.check(len(accepted) <= 1, "segwit-kinds-kept-apart")


ALPHA = "0159afAF:/,xEHP -_"
FREE = ["as_number", "secret_exponent", "public_pair", "sec", "bip32_seed", "hd_seed", "electrum_seed", "electrum_prv", "electrum_pub", "private_key", "public_key",
        "hierarchical_key", "secret"]


def free_text(ctx, n, which):
    api, net = _mk_api(ctx, with_hd=False)
    api.parse_b58_hashed = lambda s: None          # not a checksummed string
    text = ctx.sym_str("text", n, alphabet=ALPHA) if n else ""
    f = getattr(api, which)
    try:
        r = f(text)
        raised = None
    except Exception as e:
        raised = e
    if raised is not None:
        ctx.note("parse.%s raised %r" % (which, raised))
    ctx.check(raised is None, "parse.%s-never-raises" % which)


def keyword_text(ctx, which, suffix):
    """public pairs written with the even/odd keywords: '<x>/even', '<x>,odd' for a symbolic 2-character x"""
    api, net = _mk_api(ctx, with_hd=False)
    api.parse_b58_hashed = lambda s: None
    x = ctx.sym_str("x", 2, alphabet="0159af")
    text = S(items_of(x) + [ord(c) for c in suffix])
    try:
        getattr(api, which)(text)
        raised = None
    except Exception as e:
        raised = e
    if raised is not None:
        ctx.note("parse.%s raised %r" % (which, raised))
    ctx.check(raised is None, "parse.%s-never-raises" % which)


def obligations(tier):
    T = tier == "thorough"
    obs = []
    lens = {"wif": [0, 5, 31, 32, 33, 34], "p2pkh": [0, 19, 20, 21], "p2sh": [19, 20, 21], "xprv": [0, 8, 40, 73, 74, 75], "xpub": [0, 73, 74, 75], "yprv": [73, 74],
            "zpub": [74], "other": [20, 32, 74]}
    for kind, ls in lens.items():
        for L in ls:
            obs.append(Ob("C18.checksummed.%s.body%d" % (kind, L), checksummed, "validly checksummed payload: %s prefix + every %d-byte body, through 14 entry points" % (kind, L),
                          dict(prefix_kind=kind, body_len=L), weight=3, max_paths=50000, deadline_s=600))
    for config, kinds in (("long-p2sh", {"wif": [32, 33], "p2pkh": [19, 20, 21, 22], "p2sh": [18, 19, 20, 21]}),
                          ("shared", {"wif": [20, 21, 22, 32, 33], "p2pkh": [20, 21, 32], "p2sh": [19, 20, 31]})):
        for kind, ls in kinds.items():
            for L in ls:
                obs.append(Ob("C18.checksummed.%s.%s.body%d" % (config, kind, L), checksummed,
                              "prefix configuration '%s' (%s): %s prefix + every %d-byte body, through 14 entry points" % (config, "/".join(p.hex() for p in CONFIGS[config]), kind, L),
                              dict(prefix_kind=kind, body_len=L, config=config), weight=3, max_paths=50000, deadline_s=600))
    for hk in ("own", "other", "prefix", "longer"):
        for L in ([20, 32] if hk != "own" else [0, 2, 19, 20, 21, 31, 32, 33, 40]):
            obs.append(Ob("C18.bech32.%s-hrp.program%d" % (hk, L), bech32, "abstract Bech32 decoding: hrp %s, every witness version 0..31, both checksum flavours, every %d-byte program, "
                          "through the 3 segwit parsers and 3 catch-all parsers" % (hk, L), dict(data_len=L, hrp_kind=hk), weight=2))
    for which in FREE:
        for n in ((0, 1, 2, 3) if not T else (0, 1, 2, 3, 4)):
            obs.append(Ob("C18.free-text.%s.len%d" % (which, n), free_text, "parse.%s on every %d-character text over %r" % (which, n, ALPHA), dict(n=n, which=which),
                          weight=1 + n, max_paths=200000, deadline_s=900))
    for which in ("public_pair", "public_key", "__call__"):
        for suffix in ("/even", ",odd", "/odd", "/1", ",5"):
            obs.append(Ob("C18.keyword.%s.%s" % (which, suffix.replace("/", "slash-").replace(",", "comma-")), keyword_text,
                          "parse.%s on '<2 hex/decimal chars>%s'" % (which, suffix), dict(which=which, suffix=suffix), weight=2))
    return obs
