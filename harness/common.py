"""Shared harness helpers: symbolic transactions built through the real constructors."""
from symx.api import imp, B, cat, items_of, eq, sym_and


def filler(n, salt=0):
    return bytes(((i * 7 + 3 + salt) & 0xFF) for i in range(n))


def sym_blob(ctx, name, n, head=8):
    """n bytes: the first `head` symbolic, the rest fixed filler (stated cut: only lengths matter to codecs)"""
    k = min(n, head)
    h = ctx.sym_bytes(name, k)
    if n > k:
        return cat(h, filler(n - k, len(name)))
    return h if n else b""


def sym_tx_fields(ctx, shape, prefix=""):
    """shape: dict(ins=[dict(script=len, witness=[lens...])], outs=[dict(script=len)])"""
    tx = dict(version=ctx.sym_int(prefix + "version", 0, 0xFFFFFFFF), lock_time=ctx.sym_int(prefix + "lock_time", 0, 0xFFFFFFFF), ins=[], outs=[])
    for k, i in enumerate(shape["ins"]):
        tx["ins"].append(dict(
            prev_hash=ctx.sym_bytes("%sin%d.prev_hash" % (prefix, k), 32),
            prev_index=ctx.sym_int("%sin%d.prev_index" % (prefix, k), 0, 0xFFFFFFFF),
            script=sym_blob(ctx, "%sin%d.script" % (prefix, k), i.get("script", 0), i.get("head", 8)),
            sequence=ctx.sym_int("%sin%d.sequence" % (prefix, k), 0, 0xFFFFFFFF),
            witness=[sym_blob(ctx, "%sin%d.wit%d" % (prefix, k, j), n, 4) for j, n in enumerate(i.get("witness", ()))],
        ))
    for k, o in enumerate(shape["outs"]):
        tx["outs"].append(dict(
            value=ctx.sym_int("%sout%d.value" % (prefix, k), 0, (1 << 64) - 1) if o.get("value") is None else o["value"],
            script=sym_blob(ctx, "%sout%d.script" % (prefix, k), o.get("script", 0), o.get("head", 8)),
        ))
    return tx


def build_tx(Tx, f):
    ins = []
    for i in f["ins"]:
        ti = Tx.TxIn(i["prev_hash"], i["prev_index"], i["script"], i["sequence"])
        ti.witness = list(i["witness"])
        ins.append(ti)
    outs = [Tx.TxOut(o["value"], o["script"]) for o in f["outs"]]
    return Tx(f["version"], ins, outs, f["lock_time"])


def tx_fields_equal(tx, f):
    cs = [tx.version == f["version"], tx.lock_time == f["lock_time"], len(tx.txs_in) == len(f["ins"]), len(tx.txs_out) == len(f["outs"])]
    if not all(c is True or not isinstance(c, bool) for c in cs):
        return False
    for ti, i in zip(tx.txs_in, f["ins"]):
        cs += [eq(ti.previous_hash, i["prev_hash"]), ti.previous_index == i["prev_index"], eq(ti.script, i["script"]),
               ti.sequence == i["sequence"], len(ti.witness) == len(i["witness"])]
        if len(ti.witness) != len(i["witness"]):
            return False
        cs += [eq(a, b) for a, b in zip(ti.witness, i["witness"])]
    for to, o in zip(tx.txs_out, f["outs"]):
        cs += [to.coin_value == o["value"], eq(to.script, o["script"])]
    return sym_and(*cs)
