"""C08 - addresses and output scripts are in one-to-one correspondence on every network (abstract Base58Check)."""
from symx.api import Ob, imp, B, items_of, eq, cat, sym_and, sym_or, sym_not, ite, truth

META = dict(
    level_text="Bounded symbolic checking of the real AddressAPI / ParseAPI / ContractAPI code on every registered network: hashes and scripts are "
               "symbolic; Base58Check text is an abstract bijection (a token standing for its payload - the radix code is C11's subject), Bech32 is the "
               "real code (BTC and LTC). Decided: script -> address -> script round trips for P2PKH/P2SH on 48 of the 51 registered networks and P2WPKH/P2WSH/P2TR where "
               "run; that an accepted Base58Check payload has the right length and denotes the script it re-encodes to; cross-network acceptance only "
               "for identical prefixes; faithfulness of script classification on arbitrary scripts of the standard lengths.",
    level_note="Trusted: z3, symx. Base58Check is NOT executed here (abstract bijection payload <-> text); key.address() is covered only through "
               "for_p2pkh(hash160(sec)) with hash160 uninterpreted.",
    stubs=["Base58Check text = abstract bijection (token <-> payload)", "hash160/sha256 = uninterpreted"],
    assumptions=[], outside=["Groestlcoin networks (GRS, GRSRT, TGRS: own checksum hooks)", "real Base58 text (C11)", "Bech32 address round trips through ParseAPI are thorough-tier only (BTC/LTC; the codec itself is C11)", "multisig classification"],
)

_TOK = {}


def _stub(net, ctx):
    """abstract Base58Check on one network object: address.b2a returns a token, parse_b58_hashed maps tokens back to payloads"""
    table = {}
    net.address.b2a = lambda blob, table=table: table.setdefault("TOKEN%d" % len(table), blob) and ("TOKEN%d" % (len(table) - 1))
    net.parse.parse_b58_hashed = lambda s, table=table: table.get(str(s))
    return table


def _nets():
    reg = imp("pycoin.networks.registry")
    return [(s, reg.network_for_netcode(s)) for s in reg.iterate_symbols()]


def roundtrip(ctx, symbol):
    reg = imp("pycoin.networks.registry")
    net = reg.network_for_netcode(symbol)
    table = _stub(net, ctx)
    h = ctx.sym_bytes("hash160", 20)
    for kind, mk, to_addr in (("p2pkh", net.contract.for_p2pkh, net.address.for_p2pkh), ("p2sh", net.contract.for_p2sh, net.address.for_p2sh)):
        script = mk(h)
        text = net.address.for_script(script)
        if to_addr(h) is None:
            continue
        ctx.check(text is not None and text != "???", "%s-script-has-an-address" % kind)
        back = net.parse.address(text)
        ctx.check(back is not None and eq(back.script(), script), "%s-address-parses-back-to-the-same-script" % kind)
    # a payload of the wrong length is not an address
    L = ctx.choose("payload_len", [0, 19, 21])
    for prefix in (net.address._address_prefix, net.address._pay_to_script_prefix):
        if prefix is None:
            continue
        table["BAD"] = cat(prefix, ctx.sym_bytes("body", L))
        r = net.parse.address("BAD")
        if r is not None:
            ctx.check(False, "payload-of-wrong-length-refused")
    ctx.check(True, "done")


def cross(ctx, symbol):
    """an address produced on `symbol` is accepted by another network only if that network produces the same text for that script"""
    reg = imp("pycoin.networks.registry")
    src = reg.network_for_netcode(symbol)
    h = ctx.sym_bytes("hash160", 20)
    for kind in ("p2pkh", "p2sh"):
        prefix = src.address._address_prefix if kind == "p2pkh" else src.address._pay_to_script_prefix
        if prefix is None:
            continue
        payload = cat(prefix, h)
        for sym2 in reg.iterate_symbols():
            if sym2 == symbol:
                continue
            dst = reg.network_for_netcode(sym2)
            dst.parse.parse_b58_hashed = lambda s, payload=payload: payload
            r = dst.parse.address("TOKEN")
            if r is None:
                continue
            # accepted: then dst must itself encode that script to the same payload
            script = r.script()
            info = dst.contract.info_for_script(script)
            own = None
            if info.get("type") == "p2pkh" and dst.address._address_prefix is not None:
                own = cat(dst.address._address_prefix, info["hash160"])
            elif info.get("type") == "p2sh" and dst.address._pay_to_script_prefix is not None:
                own = cat(dst.address._pay_to_script_prefix, info["hash160"])
            ctx.check(own is not None and eq(own, payload), "foreign-address-accepted-only-if-identical-to-own-encoding")
    ctx.check(True, "done")


def segwit(ctx, symbol, kind):
    reg = imp("pycoin.networks.registry")
    net = reg.network_for_netcode(symbol)
    n = 20 if kind == "p2wpkh" else 32
    h = ctx.sym_bytes("program", n)
    script = {"p2wpkh": net.contract.for_p2pkh_wit, "p2wsh": net.contract.for_p2sh_wit, "p2tr": net.contract.for_p2tr}[kind](h)
    text = net.address.for_script(script)
    ctx.check(text is not None and text != "???", "script-has-an-address")
    back = net.parse.address(text)
    ctx.check(back is not None and eq(back.script(), script), "address-parses-back-to-the-same-script")


def classify(ctx, n):
    net = imp("pycoin.symbols.btc").network
    script = ctx.sym_bytes("script", n)
    info = net.contract.info_for_script(script)
    t = info.get("type")
    if t in ("unknown", "nulldata"):
        return ctx.check(True, "not-reported-as-standard")
    if t == "multisig":
        return ctx.check(True, "multisig-outside")
    rebuilt = net.contract.for_info(info)
    ctx.check(eq(rebuilt, script), "reported-kind-rebuilds-the-original-script")


def obligations(tier):
    T = tier == "thorough"
    import sys
    syms = ['ARG', 'AXE', 'BC', 'BCH', 'BSD', 'BTC', 'BTCD', 'BTDX', 'BTG', 'BTX', 'CHA', 'CHC', 'DASH', 'DCR', 'DCRT', 'DFC', 'DGB', 'DOGE', 'FAI', 'FTC', 'FTX', 'GRS',
            'GRSRT', 'JBS', 'LTC', 'MEC', 'MONA', 'MZC', 'PIVX', 'POLIS', 'RIC', 'STAK', 'STRAT', 'TBTX', 'TCHC', 'TDASH', 'TGRS', 'TMONA', 'TPIVX', 'TSTAK', 'TVI', 'TZEC',
            'VIA', 'XCH', 'XDT', 'XLT', 'XMY', 'XRT', 'XTG', 'XTN', 'ZEC']
    obs = []
    # Groestlcoin networks install their own hashed-Base58 functions (groestl checksum) through different hooks: the abstract
    # Base58Check stub of this harness does not fit them, so they are left out (stated in outside)
    syms = [s for s in syms if s not in ("GRS", "GRSRT", "TGRS")]
    for s in syms:
        obs.append(Ob("C08.roundtrip.%s" % s, roundtrip, "network %s: every 20-byte hash, P2PKH and P2SH; payloads of wrong length" % s, dict(symbol=s)))
        if T or s in ("BTC", "LTC", "PIVX", "MZC", "DCR", "XTN", "DOGE", "DASH"):
            obs.append(Ob("C08.cross-network.%s" % s, cross, "addresses of %s presented to each of the other 50 networks" % s, dict(symbol=s), weight=2))
    for s in (() if not T else ("BTC", "LTC")):
        for kind in ("p2wpkh", "p2wsh", "p2tr"):
            obs.append(Ob("C08.segwit.%s.%s" % (s, kind), segwit, "network %s: every program, real Bech32 code" % s, dict(symbol=s, kind=kind), weight=8, deadline_s=900))
    for n in ([22, 23, 25] if not T else [20, 21, 22, 23, 24, 25, 26, 33, 34, 35]):
        obs.append(Ob("C08.classify.len%d" % n, classify, "every %d-byte script (BTC templates)" % n, dict(n=n), weight=3, max_paths=100000))
    return obs
