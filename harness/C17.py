"""C17 - signed text messages verify for the signer only and never crash the verifier."""
from symx.api import Ob, imp, B, S, items_of, eq, cat, be, from_be, sym_and, sym_or, sym_not, ite, truth
from refs import wire
from harness import toy

META = dict(
    level_text="Bounded symbolic checking of the real MessageSigner code: the digest preimage for symbolic unicode messages (UTF-8 model) on several "
               "networks, the compact-signature codec for every (r, s, recovery id, compression flag) and every 65-byte / shorter / non-base64 "
               "signature text (base64 decoder modelled exactly), totality of verify_message over arbitrary signature text with the generator's "
               "recovery replaced by its contract, and sign/verify/recover on toy curves in both coordinate regimes.",
    level_note="Trusted: z3, symx (incl. its base64 / UTF-8 models, self-tested against CPython), refs/ec_ref.py tables. The armoured text format is parsed "
               "with re.split, for which no symbolic model exists: that clause is NOT decided.",
    stubs=["double SHA-256 = uninterpreted", "generator.possible_public_pairs_for_signature = contract stub (returns 0..1 pairs) in the totality obligations"],
    assumptions=["toy-curve obligations: the (key, hash) pair admits a signature at all (some nonce gives r != 0 and s != 0); on a 5-element group some pairs do not and ECDSA signing cannot terminate - impossible on secp256k1"], outside=["armoured message parsing (regular expressions)", "production-size curve recovery"],
)


class _Net(object):
    def __init__(self, name):
        self.network_name = name


def _signer(name, gen):
    MS = imp("pycoin.contrib.msg_signing").MessageSigner
    return MS(_Net(name), gen)


def digest(ctx, netname, n, lo_hi):
    ms = _signer(netname, None)
    if ctx.symbolic:
        from symx.shims import hashlib_shim as h
    else:
        import hashlib as h
    if n <= 3:
        msg = ctx.sym_str("msg", n, lo=lo_hi[0], hi=lo_hi[1]) if n else ""
        for it in (items_of(msg) if n else []):
            ctx.assume(sym_or(it < 0xD800, it > 0xDFFF))
    else:
        msg = S(items_of(ctx.sym_str("msg", 2, lo=32, hi=126)) + [ord("x")] * (n - 2))
    got = ms.hash_for_signing(msg)
    magic = ("%s Signed Message:\n" % netname).encode("utf8")
    body = msg.encode("utf8") if n else b""
    pre = cat(wire.varstr(magic), wire.varstr(body))
    ctx.check(got == from_be(h.sha256(h.sha256(pre).digest()).digest()), "digest-preimage-is-varstr-magic-varstr-message")


class _SigGen(object):
    def __init__(self, r, s, recid):
        self.rsr = (r, s, recid)

    def sign_with_recid(self, se, h):
        return self.rsr


def compact_roundtrip(ctx, compressed):
    N = (1 << 256) - 1
    r = ctx.sym_int("r", 0, N)
    s = ctx.sym_int("s", 0, N)
    recid = ctx.sym_int("recid", 0, 3)
    ms = _signer("Bitcoin", _SigGen(r, s, recid))
    text = ms.signature_for_message_hash(5, 7, compressed)
    ctx.check(len(text) == 88, "base64-of-65-bytes")
    c2, rec2, r2, s2 = ms._decode_signature(text)
    ctx.check(sym_and(c2 == compressed, rec2 == recid, r2 == r, s2 == s), "compact-signature-roundtrip")
    binascii = imp("binascii") if not ctx.symbolic else __import__("symx.shims.binascii_shim", fromlist=["x"])
    raw = binascii.a2b_base64(text)
    ctx.check(items_of(raw)[0] == 27 + recid + (4 if compressed else 0), "first-byte-is-27-plus-recid-plus-4-if-compressed")


def compact_reject(ctx, n):
    EncodingError = imp("pycoin.encoding.exceptions").EncodingError
    binascii = __import__("symx.shims.binascii_shim", fromlist=["x"]) if ctx.symbolic else imp("binascii")
    ms = _signer("Bitcoin", None)
    blob = ctx.sym_bytes("blob", n)
    text = binascii.b2a_base64(blob).strip().decode("utf8")
    try:
        ms._decode_signature(text)
        ok = True
    except EncodingError:
        ok = False
    first = items_of(blob)[0] if n else None
    want = n == 65 and sym_and(first >= 27, first < 35)
    ctx.check(eq(ok, truth(want)) if ctx.symbolic and n == 65 else ok == bool(want), "accepts-exactly-65-bytes-with-first-byte-27-to-34")


class _RecGen(object):
    """contract of the generator for recovery: a list of 0 or 1 candidate pairs"""

    def __init__(self, ctx):
        self.ctx = ctx

    def order(self):
        return 0xFFFFFFFFFFFFFFFFFFFFFFFFFFFFFFFEBAAEDCE6AF48A03BBFD25E8CD0364141

    def possible_public_pairs_for_signature(self, value, sig, y_parity=None):
        if bool(truth(self.ctx.sym_bool("r_has_a_point"))):
            return [(self.ctx.sym_int("qx", 0, (1 << 256) - 1), self.ctx.sym_int("qy", 0, (1 << 256) - 1))]
        return []

    def Point(self, x, y):
        if bool(truth(self.ctx.sym_bool("shifted_point_on_curve"))):
            return (x, y)
        raise imp("pycoin.ecdsa.Point").NoSuchPointError("not on curve")


class _Key(object):
    def __init__(self, pair):
        self._p = pair

    def public_pair(self):
        return self._p


def total(ctx, kind, n):
    ms = _signer("Bitcoin", _RecGen(ctx))
    key = _Key((ctx.sym_int("kx", 0, (1 << 256) - 1), ctx.sym_int("ky", 0, (1 << 256) - 1)))
    if kind == "text":
        sig = ctx.sym_str("sig", n, alphabet="AB+/=0 a\n-") if n else ""
    else:
        binascii = __import__("symx.shims.binascii_shim", fromlist=["x"]) if ctx.symbolic else imp("binascii")
        sig = binascii.b2a_base64(ctx.sym_bytes("blob", n)).decode("utf8")
    try:
        r = ms.verify_message(key, sig, msg_hash=ctx.sym_int("h", 0, (1 << 256) - 1))
        ok = isinstance(r, bool)
    except Exception as e:
        ctx.note("verify_message raised %r" % (e,))
        ok = False
    ctx.check(ok, "verify-returns-a-boolean-and-never-raises")


def toy_roundtrip(ctx, ci):
    import os
    c = toy.curves(os.environ.get("VERIF_TIER", "quick"))[ci]
    Gen = imp("pycoin.ecdsa.Generator").Generator
    g = Gen(c["p"], c["a"], c["b"], c["G"], c["n"])
    n = c["n"]
    d = ctx.concretize(ctx.sym_int("d", 1, n - 1))
    z = ctx.concretize(ctx.sym_int("z", 1, 2 * n))
    comp = ctx.choose("compressed", [True, False])
    # a signature must exist at all: on a 5-element group some (key, hash) pairs make r = 0 or s = 0 for EVERY nonce, and ECDSA's
    # "pick another nonce" never terminates (cannot happen on secp256k1)
    ctx.assume(any((c["table"][k][0] % n) != 0 and (z + d * (c["table"][k][0] % n)) % n != 0 for k in range(1, n)))
    ms = _signer("Bitcoin", g)
    Q = d * g
    sig = ms.signature_for_message_hash(d, z, comp)
    import base64
    first = base64.b64decode(str(sig))[0] if not ctx.symbolic or isinstance(sig, str) else None
    recid = (first - 27) & 3
    # recovery ids 2 and 3 (nonce point with x >= n; probability ~2^-128 on secp256k1): pycoin's handling is known to be wrong
    ctx.known_class("F26-recovery-id-2-3", recid >= 2)
    ctx.check(ms.verify_message(_Key(Q), sig, msg_hash=z) is True, "signature-verifies-for-the-signer")
    pair, c2 = ms.pair_for_message_hash(sig, z)
    ctx.check(tuple(pair)[0] % c["p"] == Q[0] and tuple(pair)[1] == Q[1] and c2 == comp, "recovers-exactly-the-signers-key")
    for d2 in range(1, n):
        if d2 != d:
            ctx.check(ms.verify_message(_Key(d2 * g), sig, msg_hash=z) is False, "fails-for-another-key")
    for z2 in range(1, 2 * n + 1):
        if (z2 - z) % n != 0:
            try:
                r = ms.verify_message(_Key(Q), sig, msg_hash=z2)
            except Exception as e:
                ctx.note("verify_message raised %r" % (e,))
                r = None
            ctx.check(r is False, "fails-for-another-message-hash")


def obligations(tier):
    import os
    os.environ.setdefault("VERIF_TIER", tier)
    T = tier == "thorough"
    obs = []
    for net in ("Bitcoin", "Litecoin") + (("Bitcoin Cash", "Dogecoin") if T else ()):
        for n, rng in ((0, (0, 0)), (1, (0, 0x10FFFF)), (2, (0, 0xFFFF)), (252, (32, 126)), (253, (32, 126))) + (((3, (0, 0x7FF)),) if T else ()):
            obs.append(Ob("C17.digest.%s.len%d" % (net.replace(" ", "_"), n), digest, "network %s, messages of %d code points in U+%04X..U+%04X" % (net, n, rng[0], rng[1]),
                          dict(netname=net, n=n, lo_hi=rng), expect=["digest-preimage-is-varstr-magic-varstr-message"]))
    for c in (True, False):
        obs.append(Ob("C17.compact.roundtrip.%s" % ("compressed" if c else "uncompressed"), compact_roundtrip, "every 256-bit r, s and recovery id 0..3", dict(compressed=c), weight=2))
    for n in ((0, 1, 64, 65, 66) if not T else (0, 1, 2, 32, 64, 65, 66, 67, 96)):
        obs.append(Ob("C17.compact.reject.len%d" % n, compact_reject, "every %d-byte blob, base64-encoded" % n, dict(n=n)))
    for n in ((0, 1, 2, 3, 4) if not T else (0, 1, 2, 3, 4, 5, 6)):
        obs.append(Ob("C17.total.text.len%d" % n, total, "every %d-character signature text over {A,B,+,/,=,0,space,a,newline,-}" % n, dict(kind="text", n=n), weight=2, max_paths=100000))
    for n in (64, 65, 66):
        obs.append(Ob("C17.total.blob.len%d" % n, total, "every %d-byte signature blob in base64; recovery by contract" % n, dict(kind="blob", n=n), weight=2))
    for i, c in enumerate(toy.curves(tier)):
        if c["n"] <= (13 if not T else 23):
            obs.append(Ob("C17.toy.p%d.n%d" % (c["p"], c["n"]), toy_roundtrip, "toy curve: every key, hash, other key and other hash (solver-enumerated)", dict(ci=i), weight=5, max_paths=400000, deadline_s=1200))
    return obs
