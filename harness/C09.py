"""C09 - hierarchical key derivation follows BIP32 and commutes with going public."""
from symx.api import Ob, imp, B, items_of, eq, cat, be, from_be, sym_and, sym_or, sym_not, ite, truth
from harness import groupstub
from harness.groupstub import N

META = dict(
    level_text="Bounded symbolic checking of the real BIP32 derivation, node metadata, cache and 78-byte serialisation code over an abstract prime-order "
               "group (points = exponents mod the real secp256k1 order n; coordinates uninterpreted) with HMAC-SHA512 / hash160 uninterpreted: parent "
               "key, chain code and the full 31-bit index are symbolic; children are compared with a transcription of BIP32's CKDpriv / CKDpub.",
    level_note="Trusted: z3, symx, the reference CKD functions in this harness, the group stub (harness/groupstub.py: k*G for k mod n, addition adds exponents). "
               "Counterexamples are replayed on the real secp256k1 generator and real HMAC.",
    stubs=["HMAC-SHA512, SHA-256, RIPEMD-160 = uninterpreted functions", "elliptic-curve group = abstract cyclic group of order n (exponent arithmetic mod n)",
           "Base58Check text of extended keys = abstract bijection (78-byte blob level)"],
    assumptions=["I_L < n and the child key is non-zero (BIP32's 'invalid key' case, probability < 2^-127, is outside)"],
    outside=["real curve arithmetic (C02)", "paths deeper than 2 components", "per-network Base58 text of extended keys (blob level only)"],
)


def _hmac512(ctx, key, msg):
    if ctx.symbolic:
        from symx.shims import hashlib_shim as h
        return h.HMAC(key, msg, "sha512").digest()
    import hmac
    import hashlib
    return hmac.new(bytes(key), bytes(msg), hashlib.sha512).digest()


def _ser_p(point):
    x, y = point[0], point[1]
    return cat(B([2 + (y & 1)]), be(x, 32))


def ckd_priv_ref(ctx, G, k, c, i):
    """BIP32 CKDpriv((k, c), i) -> (child k, child c, I_L)"""
    if i >= 0x80000000:
        data = cat(b"\x00", be(k, 32), be(i, 4))
    else:
        data = cat(_ser_p(k * G), be(i, 4))
    I = _hmac512(ctx, c, data)
    IL = from_be(I[:32])
    return (IL + k) % N, I[32:], IL


def ckd_pub_ref(ctx, G, K, c, i):
    data = cat(_ser_p(K), be(i, 4))
    I = _hmac512(ctx, c, data)
    IL = from_be(I[:32])
    return (IL % N) * G + K, I[32:], IL


def ckd(ctx, hardened, kmax=N - 1):
    bip32 = imp("pycoin.key.bip32")
    G = groupstub.make(ctx)
    k = ctx.sym_int("k", 1, kmax)
    c = ctx.sym_bytes("chain_code", 32)
    i = ctx.sym_int("i", 0, 0x7FFFFFFF)
    idx = i + (0x80000000 if hardened else 0)
    want_k, want_c, IL = ckd_priv_ref(ctx, G, k, c, idx)
    ctx.assume(sym_and(IL < N, want_k != 0))
    got_k, got_c = bip32.subkey_secret_exponent_chain_code_pair(G, k, c, idx, hardened, None)
    ctx.check(got_k == want_k, "child-secret-equals-CKDpriv")
    ctx.check(eq(got_c, want_c), "child-chain-code-equals-CKDpriv")
    if not hardened:
        K = k * G
        got_K, got_c2 = bip32.subkey_public_pair_chain_code_pair(G, K, c, idx)
        want_K, want_c2, _ = ckd_pub_ref(ctx, G, K, c, idx)
        ctx.check(G.Point(*got_K) == want_K if ctx.symbolic else tuple(got_K) == tuple(want_K), "child-public-key-equals-CKDpub")
        ctx.check(eq(got_c2, want_c2), "public-child-chain-code")
        ctx.check((G.Point(*got_K) == got_k * G) if ctx.symbolic else tuple(got_K) == tuple(got_k * G), "public-derivation-commutes-with-private")


class _Net(object):
    def bip32_as_string(self, blob, as_private):
        return ("XKEY", blob, as_private)


def _node_cls(ctx, G):
    BIP32Node = imp("pycoin.key.BIP32Node").BIP32Node
    return BIP32Node.make_subclass("T", _Net(), G)


def node(ctx, hardened, as_private_parent):
    G = groupstub.make(ctx)
    Node = _node_cls(ctx, G)
    exc = imp("pycoin.key.BIP32Node")
    k = ctx.sym_int("k", 1, N - 1)
    c = ctx.sym_bytes("chain_code", 32)
    depth = ctx.sym_int("depth", 0, 254)
    pfp = ctx.sym_bytes("parent_fingerprint", 4)
    cidx = ctx.sym_int("child_index", 0, 0xFFFFFFFF)
    i = ctx.sym_int("i", 0, 0x7FFFFFFF)
    parent = Node(c, depth=depth, parent_fingerprint=pfp, child_index=cidx, secret_exponent=k)
    idx = i + (0x80000000 if hardened else 0)
    want_k, want_c, IL = ckd_priv_ref(ctx, G, k, c, idx)
    ctx.assume(sym_and(IL < N, want_k != 0))
    src = parent if as_private_parent else parent.public_copy()
    if hardened and not as_private_parent:
        try:
            src.subkey(i=i, is_hardened=True)
            refused = False
        except exc.PublicPrivateMismatchError:
            refused = True
        return ctx.check(refused, "hardened-derivation-from-public-node-refused")
    child = src.subkey(i=i, is_hardened=hardened)
    ctx.check(child.tree_depth() == depth + 1, "child-depth")
    ctx.check(child.child_index() == idx, "child-number-with-hardened-bit")
    ctx.check(eq(child.parent_fingerprint(), parent.fingerprint()), "parent-fingerprint-is-first-4-bytes-of-parent-hash160")
    ctx.check(eq(parent.fingerprint(), parent.hash160(is_compressed=True)[:4]), "fingerprint-definition")
    ctx.check(eq(child.chain_code(), want_c), "child-chain-code")
    if as_private_parent:
        ctx.check(child.secret_exponent() == want_k, "child-secret")
    else:
        ctx.check(child.secret_exponent() is None, "public-child-has-no-secret")
    pub = child.public_pair()
    ctx.check((G.Point(*pub) == want_k * G) if ctx.symbolic else tuple(pub) == tuple(want_k * G), "child-public-key")
    # 78-byte layout (without the 4 version bytes) and round trip
    blob = child.serialize(as_private=as_private_parent)
    keydata = cat(b"\x00", be(want_k, 32)) if as_private_parent else _ser_p(want_k * G)
    ctx.check(eq(blob, cat(B([depth + 1]), parent.fingerprint(), be(idx, 4), want_c, keydata)), "serialisation-is-the-bip32-layout")
    if as_private_parent:
        back = Node.deserialize(cat(b"\x04\x88\xad\xe4", blob))
        ctx.check(sym_and(back.secret_exponent() == want_k, eq(back.chain_code(), want_c), back.tree_depth() == depth + 1, back.child_index() == idx,
                          eq(back.parent_fingerprint(), parent.fingerprint())), "deserialize-serialize-identity")
    ctx.check(child.hwif(as_private=as_private_parent)[1] is not None, "hwif-wraps-the-blob")


def cache(ctx, h1, h2):
    """two derivations on the same node object: the second must equal a fresh node's answer"""
    G = groupstub.make(ctx)
    Node = _node_cls(ctx, G)
    k = ctx.sym_int("k", 1, N - 1)
    c = ctx.sym_bytes("chain_code", 32)
    i1 = ctx.sym_int("i1", 0, 0x7FFFFFFF)
    i2 = ctx.sym_int("i2", 0, 0x7FFFFFFF)
    priv2 = ctx.sym_bool("second_as_private")
    node = Node(c, secret_exponent=k)
    fresh = Node(c, secret_exponent=k)
    for idx, hard in ((i1, h1), (i2, h2)):
        wk, wc, IL = ckd_priv_ref(ctx, G, k, c, idx + (0x80000000 if hard else 0))
        ctx.assume(sym_and(IL < N, wk != 0))
    node.subkey(i=i1, is_hardened=h1)
    as_priv = bool(truth(priv2))
    a = node.subkey(i=i2, is_hardened=h2, as_private=as_priv)
    b = fresh.subkey(i=i2, is_hardened=h2, as_private=as_priv)
    ctx.check(a.child_index() == b.child_index(), "cached-node-child-number")
    ctx.check(eq(a.chain_code(), b.chain_code()), "cached-node-chain-code")
    ctx.check((a.secret_exponent() is None) == (b.secret_exponent() is None), "cached-node-privacy")
    if a.secret_exponent() is not None and b.secret_exponent() is not None:
        ctx.check(a.secret_exponent() == b.secret_exponent(), "cached-node-secret")
    pa, pb = a.public_pair(), b.public_pair()
    ctx.check((G.Point(*pa) == G.Point(*pb)) if ctx.symbolic else tuple(pa) == tuple(pb), "cached-node-public-key")


def path(ctx, spelling):
    """subkey_for_path on 1- and 2-component paths with a symbolic small index vs explicit subkey() calls"""
    G = groupstub.make(ctx)
    Node = _node_cls(ctx, G)
    k = ctx.sym_int("k", 1, N - 1)
    c = ctx.sym_bytes("chain_code", 32)
    node = Node(c, secret_exponent=k)
    i = ctx.concretize(ctx.sym_int("i", 0, 12))
    j = 7
    mark = {"H": "H", "p": "p", "'": "'", "": ""}[spelling]
    hard = spelling != ""
    for idx, h in ((i, hard),):
        wk, wc, IL = ckd_priv_ref(ctx, G, k, c, idx + (0x80000000 if h else 0))
        ctx.assume(sym_and(IL < N, wk != 0))
    text = "%d%s" % (i, mark)
    a = node.subkey_for_path(text)
    b = Node(c, secret_exponent=k).subkey(i=i, is_hardened=hard)
    ctx.check(a.secret_exponent() == b.secret_exponent() and a.child_index() == b.child_index(), "path-equals-explicit-derivation")
    p = node.subkey_for_path(text + ".pub")
    ctx.check(p.secret_exponent() is None and p.child_index() == b.child_index(), "pub-suffix-strips-the-secret")


def obligations(tier):
    T = tier == "thorough"
    obs = []
    for h in (False, True):
        obs.append(Ob("C09.ckd.%s" % ("hardened" if h else "normal"), ckd, "every parent key, chain code and index 0..2^31-1 (%s)" % ("hardened" if h else "normal"), dict(hardened=h),
                      expect=["child-secret-equals-CKDpriv"], weight=3))
        obs.append(Ob("C09.ckd.%s.shortkey" % ("hardened" if h else "normal"), ckd, "parent keys below 2^20 (leading zero bytes in ser256), every chain code and index",
                      dict(hardened=h, kmax=(1 << 20) - 1), expect=["child-secret-equals-CKDpriv"], weight=2, deadline_s=300))
        for priv in (True, False):
            obs.append(Ob("C09.node.%s.from-%s" % ("hardened" if h else "normal", "private" if priv else "public"), node,
                          "BIP32Node child of an arbitrary node (depth, fingerprint, child number symbolic)", dict(hardened=h, as_private_parent=priv), weight=3))
    for h1 in (False, True):
        for h2 in (False, True):
            obs.append(Ob("C09.cache.%s-then-%s" % ("H" if h1 else "n", "H" if h2 else "n"), cache, "two derivations (symbolic indices) on one node object vs a fresh node",
                          dict(h1=h1, h2=h2), weight=3))
    for sp in ("", "H", "p", "'"):
        obs.append(Ob("C09.path.%s" % (sp or "plain"), path, "path strings 'i%s' and 'i%s.pub' for i in 0..12" % (sp, sp), dict(spelling=sp)))
    return obs
