"""Toy short-Weierstrass curves of prime order with p = 3 mod 4, found by deterministic search, with the
complete table k -> k*G computed by the independent plain-integer reference (refs/ec_ref.py).
A symbolic point is the table entry at a symbolic exponent (if-then-else chains), so it is on the curve by
construction and the group law can be stated on exponents."""
from symx.api import ite, truth, sym_and
from refs import ec_ref


def _is_prime(n):
    if n < 2:
        return False
    i = 2
    while i * i <= n:
        if n % i == 0:
            return False
        i += 1
    return True


def find_curves(primes, want):
    """-> list of dict(p,a,b,G,n,table) ; `want`: 'n<p', 'n>p' or 'any' per prime"""
    out = []
    for p in primes:
        found = {}
        for a in (0, p - 3, 1, 2):
            for b in range(1, p):
                if (4 * a ** 3 + 27 * b * b) % p == 0:
                    continue
                pts = [(x, y) for x in range(p) for y in range(p) if (y * y - (x ** 3 + a * x + b)) % p == 0]
                n = len(pts) + 1
                if not _is_prime(n) or n < 5:
                    continue
                kind = "n<p" if n < p else ("n>p" if n > p else "n=p")
                if kind in found or kind == "n=p":
                    continue
                G = pts[0]
                table = [None]
                cur = G
                for k in range(1, n):
                    table.append(cur)
                    cur = ec_ref.add(cur, G, p, a)
                assert cur is None and len(set(table[1:])) == n - 1
                found[kind] = dict(p=p, a=a, b=b, G=G, n=n, table=table, kind=kind)
        for kind in ("n<p", "n>p"):
            if kind in found and (want == "any" or want == kind):
                out.append(found[kind])
    return out


_cache = {}


def curves(tier):
    if tier not in _cache:
        primes = [11, 19, 23] if tier != "thorough" else [7, 11, 19, 23, 31, 43]
        _cache[tier] = find_curves(primes, "any")
    return _cache[tier]


def sym_point_coords(c, e):
    """coordinates of e*G for a symbolic exponent e in [1, n-1] (never infinity)"""
    t = c["table"]
    x, y = t[c["n"] - 1]
    for k in range(c["n"] - 2, 0, -1):
        x = ite(e == k, t[k][0], x)
        y = ite(e == k, t[k][1], y)
    return x, y


def is_table_point(c, pt, e):
    """pt (tuple-like, possibly infinity) equals (e mod n)*G ; e concrete-or-symbolic in [0, n-1]"""
    t = c["table"]
    if pt[0] is None:
        return e == 0
    cond = False
    from symx.api import sym_or
    for k in range(1, c["n"]):
        cond = sym_or(cond, sym_and(e == k, pt[0] == t[k][0], pt[1] == t[k][1]))
    return cond
