"""C03 - script evaluation agrees with Bitcoin consensus (single-step and pipeline obligations)."""
from symx.api import Ob, imp, B, items_of, eq, cat, le, sym_and, sym_or, sym_not, ite, truth, SymList
from refs import consensus_script as cs, script_decode

META = dict(
    level_text="Bounded symbolic differential checking of the real BitcoinVM / opcode implementations / SolutionChecker pipeline against a transcription "
               "of Bitcoin Core's interpreter (refs/consensus_script.py, validated on every run of the thorough tier against all 1205 script_tests.json vectors): "
               "one instruction is executed from an arbitrary bounded pre-state (stack items with symbolic content and case-split lengths, altstack, "
               "conditional nesting, all 16 flag bits and the opcode counter symbolic) by both, and z3 proves equal verdict and equal post-state on every path.",
    level_note="Trusted: z3, symx, the reference interpreter transcription. Signature verification inside CHECKSIG-family opcodes is an idealised oracle shared "
               "by implementation and reference (unforgeability is not the subject here). Hash opcodes use uninterpreted functions.",
    stubs=["hashlib sha1/sha256/ripemd160 = uninterpreted functions", "generator.verify / sec_to_public_pair inside CHECKSIG = shared symbolic oracle (C03.sig obligations)"],
    assumptions=["one-step obligations compose: a script run is a sequence of steps from states the step obligations quantify over (bounded item lengths)"],
    outside=["stack items longer than 6 bytes in numeric positions; whole free-form programs beyond the template pipelines; taproot", "signature opcodes: more than 3 keys (4 in the thorough tier), non-minimal key/signature counts, signature and key blobs outside the stated shapes (strict-DER with 1-byte r and s / empty / 2 bytes; keys of 0, 5, 33, 34, 65 bytes with prefix in {0,2..7})"],
)

NUM1 = {139: "1ADD", 140: "1SUB", 143: "NEGATE", 144: "ABS", 145: "NOT", 146: "0NOTEQUAL"}
NUM2 = {147: "ADD", 148: "SUB", 154: "BOOLAND", 155: "BOOLOR", 156: "NUMEQUAL", 157: "NUMEQUALVERIFY", 158: "NUMNOTEQUAL", 159: "LESSTHAN",
        160: "GREATERTHAN", 161: "LESSTHANOREQUAL", 162: "GREATERTHANOREQUAL", 163: "MIN", 164: "MAX"}
STACKOPS = {107: ("TOALTSTACK", 1), 108: ("FROMALTSTACK", 0), 109: ("2DROP", 2), 110: ("2DUP", 2), 111: ("3DUP", 3), 112: ("2OVER", 4), 113: ("2ROT", 6),
            114: ("2SWAP", 4), 116: ("DEPTH", 0), 117: ("DROP", 1), 118: ("DUP", 1), 119: ("NIP", 2), 120: ("OVER", 2), 123: ("ROT", 3),
            124: ("SWAP", 2), 125: ("TUCK", 2), 130: ("SIZE", 1)}
BOOL1 = {105: "VERIFY", 115: "IFDUP", 99: "IF", 100: "NOTIF"}
HASHOPS = {166: "RIPEMD160", 167: "SHA1", 168: "SHA256", 169: "HASH160", 170: "HASH256"}


def _names():
    ops = imp("pycoin.satoshi.opcodes")
    return {v: k for k, v in ops.OPCODE_LIST}


class _TxCtx(object):
    pass


def _mk_vm(ctx, script, stack, altstack, t, f, flags, op_count, txc=None, sighash_f=None):
    VM = imp("pycoin.coins.bitcoin.VM").BitcoinVM
    vm = VM(script, txc, sighash_f, flags, initial_stack=list(stack))
    vm.stack = SymList(vm.stack)      # same list semantics; symbolic indexes fork on range first
    vm.altstack = SymList(altstack)
    vm.conditional_stack.true_count = t
    vm.conditional_stack.false_count = f
    vm.op_count = op_count
    return vm


def _cond_related(vm, vf_exec):
    """abstraction relation between pycoin's two counters and Core's vector<bool>"""
    t, f = vm.conditional_stack.true_count, vm.conditional_stack.false_count
    if t + f != len(vf_exec):
        return False
    if f == 0:
        return sym_and(*[truth(v) for v in vf_exec]) if vf_exec else True
    return sym_and(*([truth(v) for v in vf_exec[:t]] + [sym_not(truth(vf_exec[t]))]))


def _stacks_equal(a, b):
    if len(a) != len(b):
        return False
    cs_ = []
    for x, y in zip(a, b):
        if len(x) != len(y):
            return False
        cs_.append(eq(x, y))
    return sym_and(*cs_) if cs_ else True


def one_step(ctx, script_fn, items, alt_items, t, f, tail_bools=0, txc_sym=False, label=""):
    """items: list of allowed-length lists (top of stack last)."""
    ScriptError = imp("pycoin.coins.SolutionChecker").ScriptError
    flags = ctx.sym_int("flags", 0, 0xFFFF)
    op_count = ctx.sym_int("op_count", 0, 201)
    stack = []
    for i, lens in enumerate(items):
        n = ctx.choose("len%d" % i, lens) if len(lens) > 1 else lens[0]
        stack.append(ctx.sym_bytes("item%d" % i, n))
    alt = [ctx.sym_bytes("alt%d" % i, n) for i, n in enumerate(alt_items)]
    script = script_fn(ctx)
    # conditional state: t leading trues, then (if f > 0) one false and f-1 arbitrary entries
    vf = [True] * t
    if f > 0:
        vf = vf + [False] + [ctx.sym_bool("vf%d" % k) for k in range(f - 1)]
    txc = _TxCtx()
    if txc_sym:
        txc.lock_time = ctx.sym_int("lock_time", 0, 0xFFFFFFFF)
        txc.sequence = ctx.sym_int("sequence", 0, 0xFFFFFFFF)
        txc.version = ctx.sym_int("version", 0, 0xFFFFFFFF)
    else:
        txc.lock_time, txc.sequence, txc.version = 0, 0xFFFFFFFF, 1
    st = cs.State(stack=list(stack), altstack=list(alt), vf_exec=list(vf), op_count=op_count, code_hash_pos=0)
    checker = cs.Checker(lock_time=txc.lock_time, sequence=txc.sequence, version=txc.version)
    try:
        ref_pc = cs.step(st, script, 0, flags, checker, cs.WITNESS_V0)
        ref_ok = True
    except cs.Fail as e:
        ref_ok = False
        ref_code = e.code
    vm = _mk_vm(ctx, script, stack, alt, t, f, flags, op_count, txc)
    try:
        vm.eval_instruction()
        ok = True
    except ScriptError:
        ok = False
    _known(ctx, script, stack, flags, t, f)
    if not ok:
        ctx.check(not ref_ok, "fails-only-when-consensus-fails")
        return
    ctx.check(ref_ok, "succeeds-only-when-consensus-succeeds")
    ctx.check(_stacks_equal(vm.stack, st.stack), "stack-equals-consensus-stack")
    ctx.check(_stacks_equal(vm.altstack, st.altstack), "altstack-equals-consensus")
    ctx.check(_cond_related(vm, st.vf_exec), "conditional-state-corresponds")
    ctx.check(vm.op_count == st.op_count, "op-count-equals")
    ctx.check(vm.pc == ref_pc, "pc-equals")
    ctx.check(vm.begin_code_hash == st.code_hash_pos, "codeseparator-position-equals")


def _known(ctx, script, stack, flags, t, f):
    """classes of the findings listed in known_findings.json (only active when listed and still reproducing)"""
    op = items_of(script)[0]
    execd = f == 0
    if isinstance(op, int):
        if op == 115 and execd and stack:
            top = stack[-1]
            ctx.known_class("F01-ifdup-python-truthiness", sym_and(len(top) > 0, sym_not(truth(cs.cast_to_bool(top)))))
        if op == 146 and execd and stack:
            ctx.known_class("F02-0notequal-minimaldata", (flags & cs.MINIMALDATA) != 0)
            ctx.known_class("F03-no-4-byte-bound", len(stack[-1]) > 4)
        if op == 165 and execd and len(stack) >= 3:
            ctx.known_class("F03-no-4-byte-bound", any(len(x) > 4 for x in stack[-3:]))
        if op in (121, 122) and execd and stack:
            ctx.known_class("F03-no-4-byte-bound", len(stack[-1]) > 4)


def _op_script(op, trailing=0):
    def f(ctx):
        if trailing:
            return cat(B([op]), ctx.sym_bytes("trailing", trailing))
        return bytes([op])
    return f


def _push_script(op, avail):
    """push opcode `op` (1..75) with `avail` data bytes present (avail < op: truncated)"""
    def f(ctx):
        return cat(B([op]), ctx.sym_bytes("pushdata", avail))
    return f


def _pushdata_script(op, lenbytes_present, data_len):
    def f(ctx):
        nb = {76: 1, 77: 2, 78: 4}[op]
        hdr = ctx.sym_bytes("lenfield", min(nb, lenbytes_present))
        return cat(B([op]), hdr, ctx.sym_bytes("pushdata", data_len))
    return f


def any_opcode_dead_branch(ctx):
    """every opcode byte inside a non-executed branch, and at top level with an empty stack"""
    ScriptError = imp("pycoin.coins.SolutionChecker").ScriptError
    op = ctx.sym_int("opcode", 79, 255)
    op = ctx.concretize(op)
    execd = ctx.choose("executed", [False, True])
    one_step(ctx, _op_script(op), [], [], 0 if execd else 1, 0 if execd else 1)


def limits(ctx, what, n):
    """boundary triples for the size limits"""
    ScriptError = imp("pycoin.coins.SolutionChecker").ScriptError
    flags = ctx.sym_int("flags", 0, 0xFFFF)
    ctx.assume((flags & cs.MINIMALDATA) == 0)
    if what == "script-size":
        script = bytes([0x61]) * n      # OP_NOP: but 201-op limit would hit first; use pushes of OP_0 then DROP? keep pushes only
        script = bytes([0x00, 0x75][i % 2] for i in range(n))   # OP_0 OP_DROP ...
        stack = []
    elif what == "push-size":
        script = bytes([0x4D]) + n.to_bytes(2, "little") + bytes(n)
        stack = []
    elif what == "stack-size":
        script = bytes([0x00])    # one more push
        stack = [b""] * (n - 1)
    elif what == "op-count":
        script = bytes([0x61]) * n
        stack = []
    else:
        raise ValueError(what)
    VM = imp("pycoin.coins.bitcoin.VM").BitcoinVM
    vm = VM(script, None, None, flags, initial_stack=list(stack))
    try:
        vm.eval_script()
        ok = True
    except ScriptError:
        ok = False
    rstack = list(stack)
    try:
        cs.eval_script(rstack, script, flags, cs.Checker(), cs.WITNESS_V0)
        rok = True
    except cs.Fail:
        rok = False
    ctx.check(ok == rok, "limit-verdict-agrees")
    if ok and rok:
        ctx.check(len(vm.stack) == len(rstack), "final-stack-depth-agrees")


def eval_short_script(ctx, n):
    """whole-script evaluation of arbitrary n-byte scripts (composition sanity check)"""
    ScriptError = imp("pycoin.coins.SolutionChecker").ScriptError
    flags = ctx.sym_int("flags", 0, 0xFFFF)
    script = ctx.sym_bytes("script", n)
    for it in items_of(script):
        # keep away from the signature opcodes (need the oracle) in this obligation
        ctx.assume(sym_or(it < 172, it > 175))
    init = [ctx.sym_bytes("init0", 1), ctx.sym_bytes("init1", 2)]
    txc = _TxCtx()
    txc.lock_time, txc.sequence, txc.version = 0, 0xFFFFFFFF, 1
    VM = imp("pycoin.coins.bitcoin.VM").BitcoinVM
    vm = VM(script, txc, None, flags, initial_stack=list(init))
    vm.stack = SymList(vm.stack)
    try:
        vm.eval_script()
        ok = True
    except ScriptError:
        ok = False
    rstack = list(init)
    try:
        cs.eval_script(rstack, script, flags, cs.Checker(), cs.WITNESS_V0)
        rok = True
    except cs.Fail:
        rok = False
    if items_of(script):
        pass
    ctx.check(ok == rok, "script-verdict-agrees")
    if ok and rok:
        ctx.check(_stacks_equal(vm.stack, rstack), "final-stack-agrees")


NUM_LENS_Q = [0, 1, 4, 5]
NUM_LENS_T = [0, 1, 2, 3, 4, 5, 6]
CONDS_Q = [(0, 0), (1, 0), (0, 1), (1, 2)]
CONDS_T = [(0, 0), (1, 0), (2, 0), (0, 1), (1, 1), (0, 2), (1, 2), (0, 3)]


def obligations(tier):
    T = tier == "thorough"
    obs = []
    NL = NUM_LENS_T if T else NUM_LENS_Q
    conds = CONDS_T if T else CONDS_Q

    def add(name, bound, script_fn, items, alt=(), t=0, f=0, txc=False, weight=1, **kw):
        obs.append(Ob("C03.step." + name, one_step, bound, dict(script_fn=script_fn, items=items, alt_items=list(alt), t=t, f=f, txc_sym=txc),
                      weight=weight, max_paths=100000, deadline_s=900, **kw))

    # numeric opcodes
    for op, nm in NUM1.items():
        add("%s.exec" % nm, "OP_%s: operand lengths %s, +1 item below; flags/op_count symbolic" % (nm, NL), _op_script(op), [[1], NL], weight=3)
        add("%s.underflow" % nm, "OP_%s on an empty stack" % nm, _op_script(op), [])
    for op, nm in NUM2.items():
        add("%s.exec" % nm, "OP_%s: operand lengths %s x %s, +1 item below" % (nm, NL, NL), _op_script(op), [[1], NL, NL], weight=8)
        add("%s.underflow" % nm, "OP_%s with one operand" % nm, _op_script(op), [[0, 1, 5]])
    add("WITHIN.exec", "OP_WITHIN: operand lengths %s^3" % NL, _op_script(165), [NL, NL, NL], weight=20)
    add("WITHIN.underflow", "OP_WITHIN with two operands", _op_script(165), [[1], [1]])
    for op, nm in ((121, "PICK"), (122, "ROLL")):
        add("%s.exec" % nm, "OP_%s: index operand lengths %s over 3 items" % (nm, NL), _op_script(op), [[0, 1], [1], [2], NL], weight=5)
        add("%s.underflow" % nm, "OP_%s with only the index" % nm, _op_script(op), [[0, 1, 2]])
    # stack manipulation
    for op, (nm, ar) in STACKOPS.items():
        for k in sorted(set([max(ar - 1, 0), ar, ar + 1])):
            alt = [1] if nm == "FROMALTSTACK" else []
            add("%s.%ditems" % (nm, k), "OP_%s with %d stack items of lengths {0,1,2}" % (nm, k), _op_script(op),
                [[0, 1, 2] if i >= k - 2 else [1] for i in range(k)], alt=alt, weight=2)
        if nm in ("FROMALTSTACK", "TOALTSTACK"):
            add("%s.alt2" % nm, "OP_%s with two altstack items" % nm, _op_script(op), [[1]], alt=[1, 2])
            add("%s.alt0" % nm, "OP_%s with empty altstack" % nm, _op_script(op), [[1]], alt=[])
    for op, nm in BOOL1.items():
        add("%s.exec" % nm, "OP_%s: condition item lengths {0,1,2,3,4}" % nm, _op_script(op), [[1], [0, 1, 2, 3, 4]], weight=3)
        add("%s.underflow" % nm, "OP_%s on an empty stack" % nm, _op_script(op), [])
    for op, nm in ((135, "EQUAL"), (136, "EQUALVERIFY")):
        add("%s.exec" % nm, "OP_%s: item lengths {0,1,2,3}^2" % nm, _op_script(op), [[1], [0, 1, 2, 3], [0, 1, 2, 3]], weight=3)
        add("%s.underflow" % nm, "OP_%s with one item" % nm, _op_script(op), [[1]])
    for op, nm in HASHOPS.items():
        add("%s.exec" % nm, "OP_%s: item lengths {0,1,3}; hash uninterpreted" % nm, _op_script(op), [[1], [0, 1, 3]])
        add("%s.underflow" % nm, "OP_%s on an empty stack" % nm, _op_script(op), [])
    # conditionals from every nesting shape
    for (t, f) in conds:
        for op, nm in ((99, "IF"), (100, "NOTIF"), (103, "ELSE"), (104, "ENDIF")):
            add("%s.cond-t%d-f%d" % (nm, t, f), "OP_%s from nesting: %d true levels, then %d levels starting with a false one" % (nm, t, f),
                _op_script(op), [[0, 1, 2]], t=t, f=f, weight=2)
        add("DUP.cond-t%d-f%d" % (t, f), "ordinary opcode under nesting (%d,%d)" % (t, f), _op_script(118), [[1]], t=t, f=f)
        add("PUSH2.cond-t%d-f%d" % (t, f), "2-byte push under nesting (%d,%d)" % (t, f), _push_script(2, 2), [[1]], t=t, f=f)
    # CLTV / CSV
    for op, nm in ((177, "CHECKLOCKTIMEVERIFY"), (178, "CHECKSEQUENCEVERIFY")):
        add("%s.exec" % nm, "OP_%s: operand lengths 0..6, lock_time/sequence/version symbolic 32-bit" % nm, _op_script(op), [[1], [0, 1, 2, 3, 4, 5, 6]], txc=True, weight=6)
        add("%s.underflow" % nm, "OP_%s on an empty stack" % nm, _op_script(op), [], txc=True)
    # every other opcode byte, executed (empty stack) and in a dead branch
    obs.append(Ob("C03.step.any-opcode", any_opcode_dead_branch, "every opcode byte 79..255, executed on an empty stack and inside a non-executed branch",
                  weight=6, max_paths=100000))
    # pushes
    for op in ([1, 2, 75] if not T else [1, 2, 3, 16, 75]):
        for avail in sorted(set([op, op - 1, 0])):
            add("PUSH%d.avail%d" % (op, avail), "direct push of %d bytes with %d present" % (op, avail), _push_script(op, avail), [[1]])
    for op in (76, 77, 78):
        nb = {76: 1, 77: 2, 78: 4}[op]
        for present in sorted(set([0, nb - 1, nb])):
            for dl in (0, 1, 3):
                add("PUSHDATA%d.len%d.data%d" % (nb, present, dl), "PUSHDATA%d with %d length bytes and %d data bytes present (all symbolic)" % (nb, present, dl),
                    _pushdata_script(op, present, dl), [[1]], weight=3)
    # limits
    for what, vals in (("script-size", (9999, 10000, 10001)), ("push-size", (519, 520, 521)), ("stack-size", (999, 1000, 1001)), ("op-count", (200, 201, 202))):
        for n in vals:
            obs.append(Ob("C03.limits.%s.%d" % (what, n), limits, "%s at %d" % (what, n), dict(what=what, n=n), weight=4))
    for n in ((1,) if not T else (1, 2)):
        obs.append(Ob("C03.eval-script.len%d" % n, eval_short_script, "every %d-byte script (except CHECKSIG-family opcodes) on a 2-item initial stack, all flags" % n,
                      dict(n=n), weight=10 * n, max_paths=300000, deadline_s=1500))
    return obs


# ------------------------------------------------------------------------------------------------------
# signature / public-key encoding rules

class _GenVM(object):
    """what parse_and_check_signature_blob needs from the VM"""

    def __init__(self, gen):
        self._gen = gen

    def generator_for_signature_type(self, t):
        return self._gen


def sigenc(ctx, shape):
    """shape: (len_r, len_s, extra) -> blob = 30 LL 02 lr R 02 ls S hashtype with every byte symbolic
    except that the length case split fixes the total length; or ('raw', n) for arbitrary n-byte blobs"""
    ops = imp("pycoin.satoshi.checksigops")
    der = imp("pycoin.satoshi.der")
    ScriptError = imp("pycoin.coins.SolutionChecker").ScriptError
    gen = imp("pycoin.ecdsa.secp256k1").secp256k1_generator
    flags = ctx.sym_int("flags", 0, 0xFFFF)
    if shape[0] == "raw":
        blob = ctx.sym_bytes("sig", shape[1])
    else:
        lr, ls = shape[1], shape[2]
        r = ctx.sym_bytes("r", lr)
        s = ctx.sym_bytes("s", ls)
        hdr = ctx.sym_bytes("hdr", 4)      # 30, total length, 02, len_r  (all symbolic: usually right, sometimes not)
        mid = ctx.sym_bytes("mid", 2)      # 02, len_s
        ht = ctx.sym_bytes("hashtype", 1)
        blob = cat(hdr, r, mid, s, ht)
        if shape[0] == "wellformed":
            it = items_of(hdr)
            mi = items_of(mid)
            ctx.assume(sym_and(it[0] == 0x30, it[1] == lr + ls + 4, it[2] == 2, it[3] == lr, mi[0] == 2, mi[1] == ls))
    try:
        cs.check_signature_encoding(blob, flags)
        ref_ok = True
    except cs.Fail:
        ref_ok = False
    try:
        ops.parse_and_check_signature_blob(blob, flags, _GenVM(gen))
        ok = True
    except ScriptError:
        ok = False
    except (der.UnexpectedDER, ValueError):
        ok = True      # not an encoding *script error*: the caller treats the signature as simply invalid
    if len(blob) == 0:
        return ctx.check(True, "empty-signature-is-not-an-encoding-error")
    ctx.known_class("F04-low-s-uses-field-prime", (flags & cs.LOW_S) != 0)
    ctx.check(ok == ref_ok, "signature-encoding-verdict-agrees")


def pubkeyenc(ctx, n):
    ops = imp("pycoin.satoshi.checksigops")
    ScriptError = imp("pycoin.coins.SolutionChecker").ScriptError
    blob = ctx.sym_bytes("pubkey", n)
    try:
        ops.check_public_key_encoding(blob)
        ok = True
    except ScriptError:
        ok = False
    ctx.check(eq(ok, cs.is_compressed_or_uncompressed_pubkey(blob)), "pubkey-encoding-verdict-agrees")


def dispatch(ctx, n):
    """P2SH / witness-program recognition on arbitrary n-byte scripts"""
    SC = imp("pycoin.coins.bitcoin.SolutionChecker").BitcoinSolutionChecker
    script = ctx.sym_bytes("script", n)
    ctx.known_class("F05-p2sh-without-0x14", sym_and(n == 23, items_of(script)[1] != 0x14) if n == 23 else False)
    ctx.check(eq(bool(SC.is_pay_to_script_hash(script)), cs.is_p2sh(script)), "is-p2sh-agrees")
    sc = SC(None)
    v = sc._witness_program_version(script)
    wp = cs.witness_program(script)
    if wp is None:
        ctx.check(v is None, "not-a-witness-program")
    else:
        ctx.check(v is not None and v == wp[0], "witness-version-agrees")


class _Unspent(object):
    def __init__(self, script, value=0):
        self.script = script
        self.coin_value = value


def pipeline(ctx, kind, sig_items, wit_items, redeem_len=0, wscript_len=0, prog_len=None):
    """whole check_solution vs VerifyScript on template families without signature opcodes.
    kind: 'bare' (short arbitrary scriptPubKey), 'p2sh', 'wit' (native witness program), 'p2sh-wit'"""
    Tx = imp("pycoin.coins.bitcoin.Tx").Tx
    ScriptError = imp("pycoin.coins.SolutionChecker").ScriptError
    if ctx.symbolic:
        from symx.shims import hashlib_shim as H
    else:
        import hashlib as H
    flags = ctx.sym_int("flags", 0, 0xFFFF)
    # flag combinations Core permits: WITNESS needs P2SH, CLEANSTACK needs both
    ctx.assume(sym_or((flags & cs.WITNESS) == 0, (flags & cs.P2SH) != 0))
    ctx.assume(sym_or((flags & cs.CLEANSTACK) == 0, sym_and((flags & cs.P2SH) != 0, (flags & cs.WITNESS) != 0)))
    # the flags that steer the pipeline are symbolic; flags that only matter to signature opcodes / NOPs are clear
    PIPE_FLAGS = cs.P2SH | cs.SIGPUSHONLY | cs.MINIMALDATA | cs.CLEANSTACK | cs.WITNESS | cs.DISCOURAGE_UPGRADABLE_WITNESS_PROGRAM | cs.MINIMALIF
    ctx.assume((flags & ~PIPE_FLAGS & 0xFFFF) == 0)

    PIPE_ALPHA = [0x00, 0x51, 0x01, 0x76, 0x75, 0x87, 0x63, 0x68, 0x61, 0x74]

    def nosig(b):
        """free-form script bytes range over an opcode alphabet (single-opcode semantics are the step obligations' job)"""
        out = []
        for it in items_of(b):
            ctx.assume(sym_or(*[it == a for a in PIPE_ALPHA]))
            out.append(ctx.concretize(it))
        return B(out)
    witness = []
    for k, n in enumerate(wit_items):
        if n <= 8:
            witness.append(ctx.sym_bytes("wit%d" % k, n))
        else:
            witness.append(cat(ctx.sym_bytes("wit%d" % k, 2), bytes(n - 2)))
    wscript = None
    if wscript_len:
        if wscript_len <= 6:
            wscript = nosig(ctx.sym_bytes("wscript", wscript_len))
        else:
            # long witness script: <filler push(es)> DROPs ... OP_1 ; only its length matters
            body = b""
            remaining = wscript_len - 1
            while remaining > 0:
                chunk = min(remaining, 523)
                if chunk < 5:
                    body += bytes([0x61]) * chunk   # OP_NOP
                    remaining -= chunk
                    continue
                dl = chunk - 4
                body += bytes([0x4D]) + dl.to_bytes(2, "little") + bytes(dl) + bytes([0x75])
                remaining -= chunk
            wscript = body + bytes([0x51])
            assert len(wscript) == wscript_len
        witness = witness + [wscript]
    if kind in ("wit", "p2sh-wit"):
        ver = ctx.sym_int("witver", 0, 16)
        if prog_len is None:
            program = H.sha256(wscript).digest() if wscript is not None else ctx.sym_bytes("program", 32)
        else:
            program = ctx.sym_bytes("program", prog_len)
        wprog = cat(B([ite(ver == 0, 0, ver + 0x50), len(program)]), program)
    pushes = []
    for k, n in enumerate(sig_items):
        pushes.append(ctx.sym_bytes("sigitem%d" % k, n))
    if kind == "bare":
        spk = nosig(ctx.sym_bytes("script_pubkey", redeem_len))
        script_sig = cat(*[cs.sighash.push_of(p) for p in pushes]) if pushes else b""
    elif kind == "p2sh":
        redeem = nosig(ctx.sym_bytes("redeem", redeem_len))
        h = H.new("ripemd160", H.sha256(redeem).digest()).digest() if not ctx.symbolic else H.new("ripemd160", H.sha256(redeem).digest()).digest()
        spk = cat(B([0xA9, 0x14]), h, B([0x87]))
        script_sig = cat(*([cs.sighash.push_of(p) for p in pushes] + [cs.sighash.push_of(redeem)]))
    elif kind == "wit":
        spk = wprog
        script_sig = cat(*[cs.sighash.push_of(p) for p in pushes]) if pushes else b""
    else:
        h = H.new("ripemd160", H.sha256(wprog).digest()).digest()
        spk = cat(B([0xA9, 0x14]), h, B([0x87]))
        script_sig = cat(*([cs.sighash.push_of(p) for p in pushes] + [cs.sighash.push_of(wprog)]))
    extra_op = ctx.choose("scriptsig_tail", ["none", "nop"]) if kind != "wit" else "none"
    if extra_op == "nop":
        script_sig = cat(script_sig, B([0x61]))
    tx = Tx(1, [Tx.TxIn(b"\x11" * 32, 0, script_sig, 0xFFFFFFFF)], [Tx.TxOut(1, b"\x51")])
    tx.txs_in[0].witness = list(witness)
    tx.set_unspents([Tx.TxOut(5, spk)])
    try:
        cs.verify_script(script_sig, spk, list(witness), flags, cs.Checker())
        ref_ok = True
    except cs.Fail as e:
        ref_ok = False
    try:
        tx.check_solution(0, flags=flags)
        ok = True
    except ScriptError:
        ok = False
    if wscript is not None and len(wscript) > 520:
        ctx.known_class("F06-p2wsh-script-over-520", True)
    ctx.check(ok == ref_ok, "spend-verdict-agrees-with-VerifyScript")


def _more_obligations(tier):
    T = tier == "thorough"
    obs = []
    for n in ([0, 1, 8, 9, 10] if not T else [0, 1, 2, 8, 9, 10, 11, 12]):
        obs.append(Ob("C03.sigenc.raw%d" % n, sigenc, "every %d-byte signature blob, all 16 flags" % n, dict(shape=("raw", n)), weight=3, max_paths=50000))
    for lr, ls in ([(1, 1), (2, 1), (1, 2), (32, 32), (33, 32), (33, 33)] if not T else [(1, 1), (2, 1), (1, 2), (2, 2), (3, 1), (31, 32), (32, 32), (33, 32), (32, 33), (33, 33), (34, 33)]):
        if lr + ls <= (3 if not T else 4):
          obs.append(Ob("C03.sigenc.der.r%d.s%d" % (lr, ls), sigenc, "DER-shaped blobs with %d-byte R and %d-byte S: framing bytes, integers and hash type all symbolic" % (lr, ls),
                      dict(shape=("shaped", lr, ls)), weight=5, max_paths=50000))
        obs.append(Ob("C03.sigenc.wellformed.r%d.s%d" % (lr, ls), sigenc, "correctly framed DER with %d-byte R, %d-byte S: R, S (low-S boundary) and hash type symbolic" % (lr, ls),
                      dict(shape=("wellformed", lr, ls)), weight=5, max_paths=50000))
    for n in (0, 1, 32, 33, 34, 64, 65, 66):
        obs.append(Ob("C03.pubkeyenc.len%d" % n, pubkeyenc, "every %d-byte public key blob" % n, dict(n=n)))
    for n in ([3, 4, 5, 22, 23, 24, 34, 42, 43] if not T else list(range(0, 45))):
        obs.append(Ob("C03.dispatch.len%d" % n, dispatch, "every %d-byte scriptPubKey: P2SH and witness-program recognition" % n, dict(n=n)))
    P = []
    P.append(("bare.spk1.push1", dict(kind="bare", sig_items=[1], wit_items=[], redeem_len=1)))
    if T:
        P.append(("bare.spk2.push0-1", dict(kind="bare", sig_items=[0, 1], wit_items=[], redeem_len=2)))
    P.append(("bare.spk1.witness-unexpected", dict(kind="bare", sig_items=[1], wit_items=[1], redeem_len=1)))
    P.append(("p2sh.redeem1.push1", dict(kind="p2sh", sig_items=[1], wit_items=[], redeem_len=1)))
    if T:
        P.append(("p2sh.redeem2.push1-1", dict(kind="p2sh", sig_items=[1, 1], wit_items=[], redeem_len=2)))
    P.append(("p2sh.redeem1.nopush", dict(kind="p2sh", sig_items=[], wit_items=[], redeem_len=1)))
    for pl in (2, 20, 32, 40):
        P.append(("wit.prog%d.items1" % pl, dict(kind="wit", sig_items=[], wit_items=[1], prog_len=pl)))
    P.append(("wit.prog20.items0-1", dict(kind="wit", sig_items=[], wit_items=[0, 1], prog_len=20)))
    P.append(("wit.prog32.empty-witness", dict(kind="wit", sig_items=[], wit_items=[], prog_len=32)))
    P.append(("wit.prog32.scriptsig-not-empty", dict(kind="wit", sig_items=[1], wit_items=[1], prog_len=32)))
    for wl in ((1,) if not T else (1, 2, 3)):
        P.append(("p2wsh.script%d.item1" % wl, dict(kind="wit", sig_items=[], wit_items=[1], wscript_len=wl)))
    if T:
        P.append(("p2wsh.script2.items1-2", dict(kind="wit", sig_items=[], wit_items=[1, 2], wscript_len=2)))
    P.append(("p2wsh.script1.item520", dict(kind="wit", sig_items=[], wit_items=[520], wscript_len=1)))
    P.append(("p2wsh.script1.item521", dict(kind="wit", sig_items=[], wit_items=[521], wscript_len=1)))
    for wl in (520, 521, 3000, 10000, 10001):
        P.append(("p2wsh.script%d" % wl, dict(kind="wit", sig_items=[], wit_items=[], wscript_len=wl)))
    P.append(("p2sh-p2wsh.script1.item1", dict(kind="p2sh-wit", sig_items=[], wit_items=[1], wscript_len=1)))
    P.append(("p2sh-p2wsh.script1.extra-push", dict(kind="p2sh-wit", sig_items=[1], wit_items=[1], wscript_len=1)))
    if T:
        P.append(("p2sh-p2wsh.script2.item1", dict(kind="p2sh-wit", sig_items=[], wit_items=[1], wscript_len=2)))
        P.append(("p2sh-p2wsh.script2.extra-push", dict(kind="p2sh-wit", sig_items=[1], wit_items=[1], wscript_len=2)))
    P.append(("p2sh-wit.prog20.items0-1", dict(kind="p2sh-wit", sig_items=[], wit_items=[0, 1], prog_len=20)))
    if T:
        P.append(("p2wsh.script4.items1-1", dict(kind="wit", sig_items=[], wit_items=[1, 1], wscript_len=4)))
        P.append(("p2sh.redeem3.push1-2", dict(kind="p2sh", sig_items=[1, 2], wit_items=[], redeem_len=3)))
        P.append(("bare.spk3.push1-1", dict(kind="bare", sig_items=[1, 1], wit_items=[], redeem_len=3)))
        P.append(("p2sh-p2wsh.script521", dict(kind="p2sh-wit", sig_items=[], wit_items=[], wscript_len=521)))
    for nm, kw in P:
        obs.append(Ob("C03.pipeline." + nm, pipeline, "template %s: all data bytes, witness version and all Core-permitted flag sets symbolic; no signature opcodes" % nm,
                      kw, weight=8, max_paths=200000, deadline_s=1200))
    return obs


_base_obligations = obligations


# ---------------------------------------------------------------------------------------------
# CHECKSIG / CHECKMULTISIG against the consensus matching loop, with signature validity as an arbitrary oracle

_SECP_P = 2 ** 256 - 2 ** 32 - 977
_SECP_N = 0xFFFFFFFFFFFFFFFFFFFFFFFFFFFFFFFEBAAEDCE6AF48A03BBFD25E8CD0364141


_HASHTYPES = (0, 1, 3, 4, 0x81, 0x84)      # representatives of every class the encoding rules distinguish (undefined low / defined / undefined high, with and without ANYONECANPAY)
_PREFIXES = (0, 2, 3, 4, 5, 6, 7)


class _OracleGen(object):
    """the curve as far as the signature opcodes can see it: any x decompresses (to the fake ordinates 2 / 3 by parity), and whether signature
    (r, s) is valid for point (x, y) is an arbitrary boolean per (signature, point) - chosen by the solver, shared with the reference"""

    def __init__(self, oracle):
        self._oracle = oracle

    def p(self):
        return _SECP_P

    def order(self):
        return _SECP_N

    def points_for_x(self, x):
        return ((x, 2), (x, 3))

    def verify(self, public_pair, val, sig_pair):
        return self._oracle(sig_pair[0], public_pair[0], public_pair[1])


def sigops(ctx, op, n_keys, n_sigs, sigversion="witness_v0", key_len=33, short_sig=False, lean=False):
    """one CHECKSIG / CHECKMULTISIG(VERIFY) instruction.  Signatures: strict-DER blobs with r = index (concrete, identifies the signature),
    symbolic s and hash-type byte, or the empty blob (or a 2-byte blob no DER parser accepts).  Keys: 33 or 65 bytes with a SYMBOLIC prefix
    byte and x = index.  Validity of (signature i, point) is an arbitrary boolean."""
    ScriptError = imp("pycoin.coins.SolutionChecker").ScriptError
    flags = ctx.sym_int("flags", 0, 0xFFFF)
    sv = cs.WITNESS_V0 if sigversion == "witness_v0" else cs.BASE
    if sv == cs.BASE:
        ctx.assume((flags & (cs.MINIMALIF | cs.WITNESS_PUBKEYTYPE)) == 0)      # pycoin's SolutionChecker clears them outside segwit, as consensus ignores them there
    op_count = ctx.sym_int("op_count", 0, 201)
    if lean:
        # multi-signature shapes: the matching loop is the subject; flags limited to those the loop and the encodings look at, the op count to the limit's neighbourhood
        ctx.assume((flags & ~(cs.STRICTENC | cs.NULLFAIL | cs.NULLDUMMY | cs.WITNESS_PUBKEYTYPE | cs.DERSIG) & 0xFFFF) == 0)
        ctx.assume(sym_or(op_count == 0, op_count == 200 - n_keys, op_count == 201 - n_keys))
    table = {}

    def oracle(r, x, y):
        k = (int(r), int(x), int(y))
        if k not in table:
            try:
                table[k] = bool(truth(ctx.sym_bool("valid.sig%d.x%d.y%d" % k)))
            except BaseException:
                if ctx.symbolic:
                    raise
                table[k] = False
        return table[k]

    sigs = []
    for i in range(n_sigs):
        shape = ctx.choose("sig%d.shape" % i, ["der", "empty"] + (["short"] if short_sig else []))
        if shape == "der":
            sv_ = ctx.sym_int("sig%d.s" % i, 1, 0x7F)
            ht = ctx.sym_int("sig%d.hashtype" % i, 0, 255)
            ctx.assume(sym_or(*[ht == v for v in (_HASHTYPES if not lean else ((1, 4) if i == 0 else (1,)))]))
            sigs.append(B([0x30, 6, 2, 1, i + 1, 2, 1, sv_, ht]))
        elif shape == "empty":
            sigs.append(b"")
        else:
            sigs.append(ctx.sym_bytes("sig%d.short" % i, 2))
    keys = []
    for j in range(n_keys):
        pre = ctx.sym_int("key%d.prefix" % j, 0, 255)
        ctx.assume(sym_or(*[pre == v for v in (_PREFIXES if not lean else (((2, 3, 5) if key_len == 33 else (4, 6, 5)) if j == 0 else ((2,) if key_len == 33 else (4,))))]))
        body = bytes(31) + bytes([j + 1])
        if key_len == 33:
            keys.append(cat(B([pre]), body))
        elif key_len == 65:
            ypar = ctx.choose("key%d.yparity" % j, [0, 1])
            keys.append(cat(B([pre]), body, bytes(31) + bytes([100 + 2 * j + ypar])))
        elif key_len == 0:
            keys.append(b"")
        else:
            keys.append(cat(B([pre]), bytes(key_len - 1)))

    def num_item(k):
        return b"" if k == 0 else bytes([k])
    if op in (172, 173):
        stack = [sigs[0], keys[0]]
    else:
        dummy = ctx.sym_bytes("dummy", ctx.choose("dummy.len", [0, 1]))
        stack = [dummy] + sigs + [num_item(n_sigs)] + keys + [num_item(n_keys)]
    script = bytes([op])

    def ref_check_sig(sig, pk, code, sigversion_):
        its = items_of(sig)
        if len(its) != 9:
            return False                      # empty, or a blob the lax DER parser rejects
        kb = items_of(pk)
        if len(kb) == 33:
            if not bool(truth(sym_or(kb[0] == 2, kb[0] == 3))):
                return False                  # CPubKey::IsValid / secp256k1_ec_pubkey_parse: only 02 / 03 start a 33-byte key
            y = 2 if bool(truth(kb[0] == 2)) else 3
        elif len(kb) == 65:
            y = kb[64]
            ok = sym_or(kb[0] == 4, sym_and(kb[0] == 6, (y & 1) == 0), sym_and(kb[0] == 7, (y & 1) == 1))
            if not bool(truth(ok)):
                return False                  # hybrid keys must carry the matching parity
        else:
            return False
        return oracle(its[4], kb[32], y)

    st = cs.State(stack=list(stack), altstack=[], vf_exec=[], op_count=op_count, code_hash_pos=0)
    checker = cs.Checker(check_sig=ref_check_sig)
    try:
        ref_pc = cs.step(st, script, 0, flags, checker, sv)
        ref_ok = True
    except cs.Fail as e:
        ref_ok = False
    imp("pycoin.coins.bitcoin.VM").secp256k1_generator = _OracleGen(oracle)
    vm = _mk_vm(ctx, script, stack, [], 0, 0, flags, op_count, _TxCtx(), sighash_f=lambda signature_type, blobs, vm_: 1 + signature_type)
    try:
        vm.eval_instruction()
        ok = True
    except ScriptError:
        ok = False
    except Exception as e:
        ctx.note("pycoin raised %r" % (e,))
        ctx.check(False, "signature-opcode-raises-only-script-errors")
    if not ok:
        ctx.check(not ref_ok, "fails-only-when-consensus-fails")
        return
    ctx.check(ref_ok, "succeeds-only-when-consensus-succeeds")
    ctx.check(_stacks_equal(vm.stack, st.stack), "stack-equals-consensus-stack")
    ctx.check(vm.op_count == st.op_count, "op-count-equals")


def _sig_obligations(tier):
    T = tier == "thorough"
    obs = []
    for op, nm in ((172, "CHECKSIG"), (173, "CHECKSIGVERIFY")):
        for svn in ("witness_v0", "base"):
            for kl in (33, 65) + ((0, 5, 34) if op == 172 else ()):
                obs.append(Ob("C03.sig.%s.%s.key%d" % (nm, svn, kl), sigops, "%s (%s): DER / empty / 2-byte signature, %d-byte key with prefix byte in {0,2..7}, hash-type byte in 6 representatives, all 16 flags, oracle validity" % (nm, svn, kl),
                              dict(op=op, n_keys=1, n_sigs=1, sigversion=svn, key_len=kl, short_sig=True), weight=2, max_paths=100000))
    shapes = [(0, 0), (1, 0), (1, 1), (2, 1), (2, 2), (3, 1), (3, 2)] + ([(3, 3), (4, 2)] if T else [])
    for nk, ns in shapes:
        for op, nm in ((174, "CHECKMULTISIG"), (175, "CHECKMULTISIGVERIFY")):
            if op == 175 and (nk, ns) not in ((1, 1), (2, 1), (3, 2)):
                continue
            for svn in ("witness_v0", "base"):
                if svn == "base" and not (T or (nk, ns) in ((2, 1), (2, 2), (3, 2))):
                    continue
                for kl in (33, 65):
                    if kl == 65 and not (T or (nk, ns) in ((1, 1), (2, 1))):
                        continue
                    obs.append(Ob("C03.sig.%s.%s.%dof%d.key%d" % (nm, svn, ns, nk, kl), sigops,
                                  "%s (%s) with %d signatures and %d keys (%d bytes; first key's prefix in 3 classes): every arrangement of DER / empty signatures, every validity "
                                  "matrix, dummy element empty or 1 byte, every subset of STRICTENC/DERSIG/NULLFAIL/NULLDUMMY/WITNESS_PUBKEYTYPE, op count at 0 and at the limit" % (nm, svn, ns, nk, kl),
                                  dict(op=op, n_keys=nk, n_sigs=ns, sigversion=svn, key_len=kl, short_sig=(nk <= 1), lean=True), weight=1 + nk * ns, max_paths=400000, deadline_s=600))
    return obs


def obligations(tier):   # noqa: F811
    return _base_obligations(tier) + _more_obligations(tier) + _sig_obligations(tier)
