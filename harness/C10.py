"""C10 - key and signature encodings (WIF, SEC, DER) are lossless and strict."""
from symx.api import Ob, imp, B, items_of, eq, cat, be, from_be, sym_and, sym_or, sym_not, ite, truth

P = 2 ** 256 - 2 ** 32 - 977
N = 0xFFFFFFFFFFFFFFFFFFFFFFFFFFFFFFFEBAAEDCE6AF48A03BBFD25E8CD0364141

META = dict(
    level_text="Bounded symbolic checking of the real DER, SEC and WIF codecs: r, s, coordinates and secret exponents are symbolic 256-bit integers "
               "(case-split only on byte lengths), candidate blobs are symbolic byte strings of every listed length, and each decoder is compared with a "
               "reference acceptance predicate (strict DER grammar; SEC = unique encoding of a curve point; WIF payload = prefix + 32 bytes [+ 01]).",
    level_note="Trusted: z3, symx. Curve arithmetic is not executed: decompression (points_for_x) and key construction are replaced by contract stubs "
               "(a point with this x exists or not - uninterpreted; secret exponent accepted iff 1 <= e < n), Base58Check by an abstract bijection "
               "(the real radix code is C11's subject).",
    stubs=["generator.points_for_x(x): uninterpreted 'x has a curve point' predicate and y-coordinate function (contract: returns (even-y point, odd-y point) or raises ValueError)",
           "network.keys.private(e, compressed): accepts iff 1 <= e < n (the documented Key.__init__ contract), raising InvalidSecretExponentError otherwise",
           "Base58Check = abstract bijection between payload bytes and text"],
    assumptions=[], outside=["square roots mod p and scalar multiplication (C02)", "real Base58 text of 37-38 byte WIF payloads (C11 covers the codec at small sizes)"],
)


def der_roundtrip(ctx, kr, ks):
    der = imp("pycoin.satoshi.der")

    def val(name, k):
        if k == 0:
            return 0
        return ctx.sym_int(name, 1 << (8 * (k - 1)), (1 << (8 * k)) - 1)
    r, s = val("r", kr), val("s", ks)
    blob = der.sigencode_der(r, s)
    # reference minimal DER
    def enc_int(v, k):
        if k == 0:
            body = B([0])
        else:
            raw = be(v, k)
            body = raw
            top = items_of(raw)[0]
            if bool(truth(top >= 0x80)):
                body = cat(b"\x00", raw)
        return cat(B([2, len(body)]), body)
    want_body = cat(enc_int(r, kr), enc_int(s, ks))
    want = cat(B([0x30, len(want_body)]), want_body)
    ctx.check(eq(blob, want), "encoding-is-minimal-der")
    for lax in (False, True):
        r2, s2 = der.sigdecode_der(blob, use_broken_open_ssl_mechanism=lax)
        ctx.check(sym_and(r2 == r, s2 == s), "decode-encode-identity-%s" % ("lax" if lax else "strict"))


def der_strict(ctx, where, n_extra):
    der = imp("pycoin.satoshi.der")
    r = ctx.sym_int("r", 1, 0x7FFF)
    s = ctx.sym_int("s", 1, 0x7FFF)
    good = der.sigencode_der(r, s)
    extra = ctx.sym_bytes("extra", n_extra)
    if where == "after":
        blob = cat(good, extra)
    else:
        # junk inside the SEQUENCE, its length byte enlarged to cover it
        g = items_of(good)
        blob = cat(B([g[0], g[1] + n_extra]), B(g[2:]), extra)
    try:
        der.sigdecode_der(blob, use_broken_open_ssl_mechanism=False)
        accepted = True
    except der.UnexpectedDER:
        accepted = False
    ctx.check(not accepted, "strict-decoding-refuses-trailing-bytes")


class StubGenerator(object):
    """contract of Generator as far as the SEC codec uses it"""

    def __init__(self, ctx):
        self.ctx = ctx
        self.calls = []

    def p(self):
        return P

    def points_for_x(self, x):
        i = len(self.calls)
        exists = self.ctx.sym_bool("x_has_point_%d" % i)
        self.calls.append(x)
        if not bool(truth(exists)):
            raise ValueError("no y value for x")
        y = self.ctx.sym_int("y_even_%d" % i, 1, P - 1)
        self.ctx.assume((y & 1) == 0)
        return ((x, y), (x, P - y))


def sec_roundtrip(ctx, compressed):
    sec = imp("pycoin.encoding.sec")
    x = ctx.sym_int("x", 0, P - 1)
    y = ctx.sym_int("y", 1, P - 1)
    blob = sec.public_pair_to_sec((x, y), compressed=compressed)
    if compressed:
        ctx.check(eq(blob, cat(B([2 + (y & 1)]), be(x, 32))), "compressed-layout")
    else:
        ctx.check(eq(blob, cat(b"\x04", be(x, 32), be(y, 32))), "uncompressed-layout")
        g = StubGenerator(ctx)
        x2, y2 = sec.sec_to_public_pair(blob, g, strict=True)
        ctx.check(sym_and(x2 == x, y2 == y), "uncompressed-roundtrip")
    ctx.check(sec.is_sec_compressed(blob) == compressed, "compression-flag")


def sec_accept(ctx, n, strict):
    sec = imp("pycoin.encoding.sec")
    EncodingError = imp("pycoin.encoding.exceptions").EncodingError
    blob = ctx.sym_bytes("sec", n)
    g = StubGenerator(ctx)
    try:
        pt = sec.sec_to_public_pair(blob, g, strict=strict)
        accepted = True
    except (EncodingError, ValueError):
        accepted = False
    if not accepted:
        return ctx.check(True, "refused")
    b = items_of(blob)
    ctx.check(n in (33, 65), "accepted-only-with-length-33-or-65")
    if n not in (33, 65):
        return
    x = from_be(blob[1:33])
    if strict:
        ctx.check(sym_or(sym_and(n == 33, sym_or(b[0] == 2, b[0] == 3)), sym_and(n == 65, b[0] == 4)), "accepted-only-with-canonical-prefix")
    ctx.check(x < P, "accepted-only-with-x-below-the-field-prime")
    if n == 65:
        y = from_be(blob[33:65])
        ctx.check(y < P, "accepted-only-with-y-below-the-field-prime")
    if n == 33:
        ctx.check(pt[0] == x, "decoded-x")
        ctx.check(eq((pt[1] & 1) == 1, b[0] != 2) if strict else True, "decoded-y-parity-matches-prefix")


class _Keys(object):
    def __init__(self, errcls):
        self.errcls = errcls
        self.made = []

    def private(self, se, is_compressed=True):
        if bool(truth(sym_or(se < 1, se >= N))):
            raise self.errcls()
        self.made.append((se, is_compressed))
        return ("KEY", se, is_compressed)


class _Net(object):
    pass


def wif_parse(ctx, prefix_len, body_len):
    """ParseAPI.wif on an arbitrary validly-checksummed payload: prefix + body_len bytes"""
    ParseAPI = imp("pycoin.networks.ParseAPI").ParseAPI
    K = imp("pycoin.key.Key")
    net = _Net()
    net.keys = _Keys(K.InvalidSecretExponentError)
    prefix = bytes([0x80, 0x22][:prefix_len])
    api = ParseAPI.__new__(ParseAPI)
    api._network = net
    api._wif_prefix = prefix
    payload = cat(prefix, ctx.sym_bytes("body", body_len))
    api.parse_b58_hashed = lambda s: payload
    try:
        r = api.wif("token")
        raised = None
    except Exception as e:
        raised = e
    body = payload[len(prefix):]
    ok_shape = body_len == 32 or (body_len == 33 and bool(truth(items_of(body)[-1] == 1)))
    ctx.check(raised is None, "parse-never-raises")
    if raised is not None:
        return
    if not ok_shape:
        ctx.check(r is None, "wrong-length-or-marker-payload-refused")
        return
    se = from_be(body[:32])
    in_range = sym_and(se >= 1, se < N)
    if r is None:
        ctx.check(sym_not(in_range), "refuses-only-out-of-range-exponents")
    else:
        ctx.check(in_range, "accepts-only-exponents-in-range")
        ctx.check(sym_and(r[1] == se, r[2] == (body_len == 33)), "same-exponent-and-compression-flag")


def wif_roundtrip(ctx, compressed, prefix_len):
    K = imp("pycoin.key.Key")
    ParseAPI = imp("pycoin.networks.ParseAPI").ParseAPI
    prefix = bytes([0x80, 0x22][:prefix_len])
    net = _Net()
    net.keys = _Keys(K.InvalidSecretExponentError)
    blobs = []
    net.wif_for_blob = lambda blob: blobs.append(cat(prefix, blob)) or "token"
    se = ctx.sym_int("secret_exponent", 1, N - 1)
    key = K.Key.__new__(K.Key)
    key._secret_exponent, key._is_compressed, key._network = se, compressed, net
    key._network = net
    type(key)._network = None
    key.__dict__["_network"] = net
    text = key.wif()
    ctx.check(len(blobs) == 1 and eq(blobs[0], cat(prefix, be(se, 32), b"\x01" if compressed else b"")), "wif-payload-layout")
    api = ParseAPI.__new__(ParseAPI)
    api._network = net
    api._wif_prefix = prefix
    api.parse_b58_hashed = lambda s: blobs[0]
    r = api.wif(text)
    ctx.check(r is not None and bool(truth(sym_and(r[1] == se, r[2] == compressed))), "wif-roundtrip-same-exponent-and-flag")


def obligations(tier):
    T = tier == "thorough"
    obs = []
    ks = [0, 1, 2, 31, 32] if not T else [0, 1, 2, 3, 16, 30, 31, 32]
    for kr in ks:
        for k2 in (ks if T else [1, 32]):
            obs.append(Ob("C10.der.roundtrip.r%d.s%d" % (kr, k2), der_roundtrip, "every r of %d bytes and s of %d bytes (top byte non-zero)" % (kr, k2), dict(kr=kr, ks=k2),
                          expect=["decode-encode-identity-strict"], weight=2))
    for where in ("after", "inside"):
        for n in (1, 2, 3):
            obs.append(Ob("C10.der.strict.%s.%d" % (where, n), der_strict, "valid encoding of 15-bit r,s with %d arbitrary extra bytes %s the sequence" % (n, where),
                          dict(where=where, n_extra=n), expect=["strict-decoding-refuses-trailing-bytes"]))
    for c in (True, False):
        obs.append(Ob("C10.sec.roundtrip.%s" % ("compressed" if c else "uncompressed"), sec_roundtrip, "every pair x,y below p", dict(compressed=c)))
    for n in ([0, 1, 32, 33, 34, 64, 65, 66, 70] if not T else list(range(0, 71))):
        for strict in (True, False):
            obs.append(Ob("C10.sec.accept.len%d.%s" % (n, "strict" if strict else "lax"), sec_accept, "every %d-byte blob; decompression by contract" % n, dict(n=n, strict=strict)))
    for pl in (1, 2):
        for bl in ([0, 5, 31, 32, 33, 34] if not T else list(range(0, 40))):
            obs.append(Ob("C10.wif.parse.prefix%d.body%d" % (pl, bl), wif_parse, "validly checksummed WIF payload: %d-byte prefix + every %d-byte body" % (pl, bl), dict(prefix_len=pl, body_len=bl)))
        for c in (True, False):
            obs.append(Ob("C10.wif.roundtrip.prefix%d.%s" % (pl, "compressed" if c else "uncompressed"), wif_roundtrip, "every secret exponent in [1, n-1]", dict(compressed=c, prefix_len=pl)))
    return obs
