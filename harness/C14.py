"""C14 - blocks round-trip, ids and merkle roots follow the Bitcoin definition; BIP37 merkleblock proofs."""
from symx.api import Ob, imp, B, items_of, eq, cat, le, sym_and, sym_or, sym_not, ite, truth
from refs import wire, merkle_ref as ref
from harness.common import sym_tx_fields, build_tx

META = dict(
    level_text="Bounded symbolic checking of the real Block / merkle / merkleblock-proof code: header bytes and fields, transaction contents, leaf hashes "
               "and the match bitmap are symbolic; double-SHA256 is an uninterpreted function, so roots and ids are compared as terms over the same "
               "leaves (equal for every hash function). Proof corruption obligations additionally assume no hash collision among the occurring inputs.",
    level_note="Trusted: z3, symx, refs/merkle_ref.py (merkle root and BIP37 partial-tree construction transcribed from Bitcoin Core), refs/wire.py. "
               "Tree shapes (number of leaves) are enumerated up to the bound; match subsets are decided by the solver.",
    stubs=["hashlib.sha256 = uninterpreted function; proof-corruption obligations add Hinv(H(x)) = x for every applied x (collision-freeness on occurring inputs)"],
    assumptions=["C14.proof.*: no SHA-256 collision among the finitely many hash inputs that occur; leaves pairwise distinct (distinct txids)"],
    outside=["more than 9 (quick) / 17 (thorough) leaves for roots, 7 / 12 for proofs; blocks of more than 3 transactions"],
)


def _H(ctx):
    if ctx.symbolic:
        from symx.shims import hashlib_shim as h
    else:
        import hashlib as h
    return lambda b: h.sha256(h.sha256(b).digest()).digest()


def _io(ctx):
    if ctx.symbolic:
        from symx.shims import io_shim
        return io_shim
    import io
    return io


def header(ctx):
    Block = imp("pycoin.block").Block
    raw = ctx.sym_bytes("header", 80)
    blk = Block.parse_as_header(_io(ctx).BytesIO(raw))
    f = _io(ctx).BytesIO()
    blk.stream_header(f)
    ctx.check(eq(f.getvalue(), raw), "header-stream-parse-identity")
    ctx.check(eq(blk.as_bin(), raw), "header-as_bin-identity")
    fields = dict(version=blk.version, prev=blk.previous_block_hash, merkle=blk.merkle_root, time=blk.timestamp, bits=blk.difficulty, nonce=blk.nonce)
    ctx.check(eq(wire.ser_header(fields), raw), "fields-are-the-wire-layout")
    H = _H(ctx)
    ctx.check(eq(blk.hash(), H(raw)), "block-hash-is-double-sha256-of-80-byte-header")
    ctx.check(eq(blk.id(), B(list(reversed(items_of(H(raw))))).hex()), "block-id-is-reversed-hex")
    # id after changing the nonce follows the new header
    n2 = ctx.sym_int("nonce2", 0, 0xFFFFFFFF)
    blk.set_nonce(n2)
    raw2 = cat(raw[:76], le(n2, 4))
    ctx.check(eq(blk.hash(), H(raw2)), "hash-follows-set_nonce")


def header_fields(ctx):
    Block = imp("pycoin.block").Block
    f = dict(version=ctx.sym_int("version", 0, 0xFFFFFFFF), prev=ctx.sym_bytes("prev", 32), merkle=ctx.sym_bytes("merkle", 32),
             time=ctx.sym_int("time", 0, 0xFFFFFFFF), bits=ctx.sym_int("bits", 0, 0xFFFFFFFF), nonce=ctx.sym_int("nonce", 0, 0xFFFFFFFF))
    blk = Block(f["version"], f["prev"], f["merkle"], f["time"], f["bits"], f["nonce"])
    raw = blk.as_bin()
    ctx.check(eq(raw, wire.ser_header(f)), "header-bytes-are-the-wire-layout")
    b2 = Block.parse_as_header(_io(ctx).BytesIO(raw))
    ctx.check(sym_and(b2.version == f["version"], eq(b2.previous_block_hash, f["prev"]), eq(b2.merkle_root, f["merkle"]), b2.timestamp == f["time"],
                      b2.difficulty == f["bits"], b2.nonce == f["nonce"]), "parse-stream-identity-on-fields")


def block_roundtrip(ctx, n_tx, bad_root=False, cls="btc"):
    if cls == "btc":
        Block = imp("pycoin.block").Block
        Tx = imp("pycoin.coins.bitcoin.Tx").Tx
        Block = Block.make_subclass("BTC", Tx)
    else:
        Block = imp("pycoin.coins.litecoin").LTCBlock
        Tx = Block.Tx
    BadMerkleRootError = imp("pycoin.block").BadMerkleRootError
    H = _H(ctx)
    txfs = [sym_tx_fields(ctx, dict(ins=[dict(script=1)], outs=[dict(script=1)] * (1 + (k % 2))), prefix="tx%d." % k) for k in range(n_tx)]
    txs = [build_tx(Tx, f) for f in txfs]
    leaves = [H(wire.ser_tx(f, with_witness=False)) for f in txfs]
    root = ref.merkle_root(leaves, H)
    hdr = dict(version=ctx.sym_int("version", 0, 0xFFFFFFFF), prev=ctx.sym_bytes("prev", 32), time=ctx.sym_int("time", 0, 0xFFFFFFFF),
               bits=ctx.sym_int("bits", 0, 0xFFFFFFFF), nonce=ctx.sym_int("nonce", 0, 0xFFFFFFFF))
    if bad_root:
        hdr["merkle"] = ctx.sym_bytes("claimed_root", 32)
        ctx.assume(sym_not(eq(hdr["merkle"], root)))
    else:
        hdr["merkle"] = root
    raw = cat(wire.ser_header(hdr), wire.compact_size(n_tx), *[wire.ser_tx(f) for f in txfs])
    try:
        blk = Block.from_bin(raw)
        accepted = True
    except BadMerkleRootError:
        accepted = False
    if bad_root:
        ctx.check(not accepted, "wrong-merkle-root-rejected")
        return
    ctx.check(accepted, "honest-block-accepted")
    ctx.check(eq(blk.as_bin(), raw), "block-parse-stream-identity")
    ctx.check(len(blk.txs) == n_tx, "transaction-count")
    ctx.check(eq(blk.hash(), H(raw[:80])), "block-hash-covers-header-only")
    # building the block from objects gives the same bytes
    b2 = Block(hdr["version"], hdr["prev"], hdr["merkle"], hdr["time"], hdr["bits"], hdr["nonce"])
    b2.set_txs(txs)
    ctx.check(eq(b2.as_bin(), raw), "block-bytes-are-header-count-transactions")


def merkle_n(ctx, n):
    m = imp("pycoin.merkle")
    H = _H(ctx)
    leaves = [ctx.sym_bytes("leaf%d" % i, 32, wide=True) for i in range(n)]
    ctx.check(eq(m.merkle(list(leaves)), ref.merkle_root(leaves, H)), "merkle-root-equals-bitcoin-definition")
    ctx.check(all(bool(eq(a, b)) if not ctx.symbolic else True for a, b in zip(leaves, leaves)), "input-list-untouched")


class _Hdr(object):
    pass


def proof(ctx, n, corrupt=None):
    mod = imp("pycoin.message.make_parser_and_packer")
    H = _H(ctx)
    leaves = [ctx.sym_bytes("leaf%d" % i, 32, wide=True) for i in range(n)]
    if True:
        # txids within a block are pairwise distinct (the proof format itself rejects equal siblings, CVE-2012-2459)
        for i in range(n):
            for j in range(i + 1, n):
                ctx.assume(sym_not(eq(leaves[i], leaves[j])))
    matches = [ctx.sym_bool("match%d" % i) for i in range(n)]
    bits, hashes = ref.build_partial_tree(leaves, matches, H)
    flags = ref.bits_to_bytes(bits)
    root = ref.merkle_root(leaves, H)
    hdr = _Hdr()
    hdr.merkle_root = root
    expect_reject = False
    hashes = list(hashes)
    if corrupt == "hash-altered":
        k = ctx.choose("which_hash", list(range(len(hashes))))
        alt = ctx.sym_bytes("altered", 32, wide=True)
        ctx.assume(sym_not(eq(alt, hashes[k])))
        hashes[k] = alt
        expect_reject = True
    elif corrupt == "hash-added":
        hashes.append(ctx.sym_bytes("extra", 32, wide=True))
        expect_reject = True
    elif corrupt == "hash-removed":
        k = ctx.choose("which_hash", list(range(len(hashes))))
        del hashes[k]
        expect_reject = True
    elif corrupt == "padding-bit":
        pad = len(flags) * 8 - len(bits)
        if pad == 0:
            # no padding bits in this shape: an extra all-zero flag byte is the analogous malformation
            flags = flags + [ctx.sym_int("extra_flag_byte", 0, 255)]
        else:
            k = ctx.choose("which_pad_bit", list(range(len(bits), len(flags) * 8)))
            flags[k // 8] |= 1 << (k % 8)
        expect_reject = True
    elif corrupt == "root":
        hdr.merkle_root = ctx.sym_bytes("claimed_root", 32, wide=True)
        ctx.assume(sym_not(eq(hdr.merkle_root, root)))
        expect_reject = True
    d = dict(header=hdr, total_transactions=n, hashes=list(hashes), flags=list(flags))
    try:
        out = mod.post_unpack_merkleblock(d, None)
        accepted = True
    except Exception:
        accepted = False
    if expect_reject:
        ctx.check(not accepted, "corrupted-proof-rejected")
        return
    ctx.check(accepted, "honest-proof-accepted")
    want = [leaves[i] for i in range(n) if bool(truth(matches[i]))]
    got = out["tx_hashes"]
    ctx.check(len(got) == len(want), "matched-count")
    ctx.check(sym_and(*[eq(a, b) for a, b in zip(got, want)]) if want else True, "matched-txids-in-order")


def obligations(tier):
    T = tier == "thorough"
    obs = [Ob("C14.header.bytes", header, "every 80-byte header", expect=["block-hash-is-double-sha256-of-80-byte-header"]),
           Ob("C14.header.fields", header_fields, "every header field value", expect=["parse-stream-identity-on-fields"])]
    for n in ((1, 2, 3) if not T else (1, 2, 3, 4)):
        obs.append(Ob("C14.block.%dtx" % n, block_roundtrip, "block of %d symbolic small transactions" % n, dict(n_tx=n), expect=["block-parse-stream-identity"], weight=3))
        obs.append(Ob("C14.block.%dtx.bad-root" % n, block_roundtrip, "block of %d transactions with any other merkle root" % n, dict(n_tx=n, bad_root=True),
                      expect=["wrong-merkle-root-rejected"], weight=3))
    obs.append(Ob("C14.block.ltc.2tx", block_roundtrip, "LTCBlock of 2 transactions", dict(n_tx=2, cls="ltc"), expect=["block-parse-stream-identity"]))
    for n in (range(1, 10) if not T else range(1, 18)):
        obs.append(Ob("C14.merkle.%dleaves" % n, merkle_n, "%d symbolic 32-byte leaves" % n, dict(n=n), expect=["merkle-root-equals-bitcoin-definition"]))
    for n in (range(1, 8) if not T else range(1, 13)):
        obs.append(Ob("C14.proof.%dleaves.honest" % n, proof, "%d leaves, every subset of matched transactions (solver-decided)" % n, dict(n=n),
                      expect=["honest-proof-accepted", "matched-txids-in-order"], weight=n, max_paths=20000, deadline_s=900, collision_free=True))
    for n in ((1, 2, 3, 5, 6) if not T else range(1, 10)):
        for c in ("hash-altered", "hash-added", "hash-removed", "padding-bit", "root"):
            obs.append(Ob("C14.proof.%dleaves.corrupt-%s" % (n, c), proof, "%d distinct leaves, every match subset, corruption: %s" % (n, c), dict(n=n, corrupt=c),
                          expect=["corrupted-proof-rejected"], weight=n, collision_free=True, max_paths=20000, deadline_s=900))
    return obs
