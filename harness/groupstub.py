"""Abstract prime-order group standing in for Generator/Point where only the group structure matters:
points are k*G for exponents k mod n; coordinates are uninterpreted functions X(k), Y(k) of the exponent
(injective by construction of the registry: a coordinate pair is mapped back to its exponent term).
Concrete replay uses the real secp256k1 generator instead (see `make`)."""
from symx.api import SymInt, truth, ite, sym_and

N = 0xFFFFFFFFFFFFFFFFFFFFFFFFFFFFFFFEBAAEDCE6AF48A03BBFD25E8CD0364141
P = 2 ** 256 - 2 ** 32 - 977


class StubPoint(tuple):
    def __new__(cls, gen, k):
        if k is None:
            self = tuple.__new__(cls, (None, None))
        else:
            self = tuple.__new__(cls, gen._coords(k))
        self.gen, self.k = gen, k
        return self

    def __add__(self, other):
        if self.k is None:
            return other
        if other.k is None:
            return self
        s = (self.k + other.k) % N
        if bool(truth(s == 0)):
            return StubPoint(self.gen, None)
        return StubPoint(self.gen, s)

    def __neg__(self):
        return self if self.k is None else StubPoint(self.gen, (N - self.k) % N)

    def __eq__(self, other):
        if not isinstance(other, StubPoint):
            return tuple.__eq__(self, other)
        if self.k is None or other.k is None:
            return self.k is None and other.k is None
        return bool(truth(self.k == other.k))

    def __ne__(self, other):
        return not self.__eq__(other)

    __hash__ = None

    def __rmul__(self, e):
        if self.k is None:
            return self
        s = (e * self.k) % N
        return StubPoint(self.gen, None) if bool(truth(s == 0)) else StubPoint(self.gen, s)

    __mul__ = __rmul__


class StubGenerator(object):
    def __init__(self, ctx):
        import z3
        self.ctx = ctx
        self.X = z3.Function("X_of_exponent", z3.BitVecSort(257), z3.BitVecSort(256))
        self.Y = z3.Function("Y_of_exponent", z3.BitVecSort(257), z3.BitVecSort(256))
        self.registry = {}

    def _coords(self, k):
        import z3
        from symx import core
        ke = z3.BitVecVal(k, 257) if isinstance(k, int) else k.at(257)
        x = core.mk_int(z3.ZeroExt(1, self.X(ke)), 0, (1 << 256) - 1)
        y = core.mk_int(z3.ZeroExt(1, self.Y(ke)), 0, (1 << 256) - 1)
        self.registry[x.e.get_id()] = (x, k)
        return (x, y)

    def order(self):
        return N

    def p(self):
        return P

    def infinity(self):
        return StubPoint(self, None)

    def contains_point(self, x, y):
        return True

    def Point(self, x, y):
        if x is None:
            return StubPoint(self, None)
        r = self.registry.get(x.e.get_id()) if isinstance(x, SymInt) else None
        if r is None:
            raise AssertionError("group stub: coordinates that were not produced by the stub")
        return StubPoint(self, r[1])

    def __rmul__(self, e):
        s = e % N
        if bool(truth(s == 0)):
            return StubPoint(self, None)
        return StubPoint(self, s)

    __mul__ = __rmul__


def make(ctx):
    """the group the harness computes in: abstract when symbolic, real secp256k1 when replaying concretely"""
    if ctx.symbolic:
        return StubGenerator(ctx)
    from pycoin.ecdsa.secp256k1 import secp256k1_generator
    return secp256k1_generator
