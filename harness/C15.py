"""C15 - header-chain tracking reports a heaviest chain whatever the arrival order."""
from symx.api import Ob, imp, eq, sym_and, sym_or, sym_not, ite, truth

META = dict(
    level_text="Bounded model checking of the real BlockChain / ChainFinder code over histories: for N headers the parent function (a forest with forks, "
               "orphans and unknown parents) is enumerated by the solver, the weights are symbolic positive integers (so every weight ordering is covered "
               "by forking on the comparisons the code makes), and delivery order / batching / locking are case-split. After every delivery the reported "
               "chain, its weight against the reference maximum, the index maps and the replayed add/remove operations are checked.",
    level_note="Trusted: z3, symx, the reference 'heaviest chain from the anchor among delivered headers' computed on the same symbolic weights. "
               "Header hashes are concrete labels; since every parent function over the labels is explored, every relative hash order is covered.",
    stubs=[], assumptions=["parent relation is acyclic (hash preimages cannot form cycles)"],
    outside=["more than 3 headers (quick) / 4 (thorough) per history; more than one lock operation per history"],
)

ANCHOR = 1000


class Header(object):
    def __init__(self, label, parent, weight):
        self.label, self.previous_block_hash, self.difficulty = label, parent, weight

    def hash(self):
        return self.label

    def __repr__(self):
        return "H%r" % (self.label,)


def _partitions(order):
    """all ways to cut the sequence `order` into consecutive non-empty batches"""
    n = len(order)
    out = []
    for mask in range(1 << (n - 1)):
        batches, cur = [], [order[0]]
        for i in range(1, n):
            if mask & (1 << (i - 1)):
                batches.append(cur)
                cur = []
            cur.append(order[i])
        batches.append(cur)
        out.append(batches)
    return out


def _perms(xs):
    if len(xs) <= 1:
        return [list(xs)]
    out = []
    for i in range(len(xs)):
        for p in _perms(xs[:i] + xs[i + 1:]):
            out.append([xs[i]] + p)
    return out


def history(ctx, n, with_lock=False, dup=False, shard=None, nshards=1, order_shard=None):
    BlockChain = imp("pycoin.blockchain.BlockChain").BlockChain
    labels = list(range(n))
    # parent of each header: another header, the anchor, or an unknown hash (orphan)
    parents = []
    ranks = [ctx.sym_int("rank%d" % i, 0, n) for i in labels]
    for i in labels:
        p = ctx.sym_int("parent%d" % i, 0, n + 1)      # 0..n-1 header labels, n = anchor, n+1 = unknown
        ctx.assume(p != i)
        for j in labels:
            ctx.assume(sym_or(p != j, ranks[j] < ranks[i]))
        parents.append(p)
    if shard is not None:
        ctx.assume((parents[0] + parents[-1] * 7) % nshards == shard)
    parents = [ctx.concretize(p) for p in parents]
    parents = [ANCHOR if p == n else (2000 + i if p == n + 1 else p) for i, p in enumerate(parents)]
    weights = [ctx.sym_int("weight%d" % i, 1, 1 << 40) for i in labels]
    perms = _perms(labels)
    if order_shard is not None:
        perms = [p for k, p in enumerate(perms) if k % 6 == order_shard]
    order = ctx.choose("order", perms)
    batches = ctx.choose("batches", _partitions(order))
    headers = {i: Header(i, parents[i], weights[i]) for i in labels}
    bc = BlockChain(parent_hash=ANCHOR, unlocked_block_storage={})
    log = []
    bc.add_change_callback(_Recorder(log))
    replayed = []
    delivered = []
    lock_after = ctx.choose("lock_after_batch", list(range(len(batches)))) if with_lock else None
    locked = 0
    locked_chain = []
    for bi, batch in enumerate(batches):
        hs = [headers[i] for i in batch]
        if dup and bi > 0:
            hs = hs + [headers[batches[0][0]]]
        ops = bc.add_headers(hs)
        delivered.extend(batch)
        _known(ctx, parents, batches, bi)
        # 1. the reported chain
        length = bc.length()
        chain = [bc.hash_for_index(k) for k in range(length)]
        ok_chain = all(c in delivered for c in chain)
        prev = ANCHOR
        for c in chain:
            if not (c in headers and headers[c].previous_block_hash == prev):
                ok_chain = False
            prev = c
        ctx.check(ok_chain and len(set(chain)) == len(chain), "reported-chain-descends-from-the-anchor-among-delivered-headers")
        # 2. its weight is the maximum (reference: every delivered header whose ancestry reaches the anchor through delivered headers)
        w_chain = 0
        for c in chain:
            w_chain = w_chain + weights[c]
        best = 0
        for lc in locked_chain:
            best = best + weights[lc]
        for h in delivered:
            w, cur, ok, seen, members = 0, h, True, 0, []
            while cur != ANCHOR:
                if cur not in delivered or seen > n:
                    ok = False
                    break
                w = w + weights[cur]
                members.append(cur)
                cur = parents[cur]
                seen += 1
            members.reverse()
            if ok and members[:len(locked_chain)] == locked_chain:      # a locked prefix is never reorganised away
                best = ite(w > best, w, best)
        ctx.check(w_chain == best, "reported-chain-has-maximum-total-weight")
        # 3. index maps
        ctx.check(all(bc.index_for_hash(c) == k for k, c in enumerate(chain)), "hash-to-index-agrees-with-chain")
        ctx.check(all(bc.index_for_hash(h) is None for h in delivered if h not in chain), "headers-off-the-chain-have-no-index")
        ctx.check(bc.last_block_hash() == (chain[-1] if chain else ANCHOR), "last-block-hash")
        # 4. operations replay
        for op, hdr, idx in ops:
            if op == "add":
                ctx.check(len(replayed) == idx, "add-op-index-is-append-position")
                replayed.append(hdr.hash())
            else:
                ctx.check(len(replayed) - 1 == idx and replayed and replayed[-1] == hdr.hash(), "remove-op-removes-the-tip")
                replayed.pop()
        ctx.check(replayed == chain, "replayed-ops-reproduce-the-chain")
        ctx.check(log and log[-1] == ops or not bc.change_callbacks, "callbacks-receive-the-same-ops")
        if with_lock and bi == lock_after and length > 0:
            k = ctx.choose("lock_to", list(range(0, length + 1)))
            bc.lock_to_index(k)
            locked = max(locked, k)
            locked_chain = chain[:locked]
            chain2 = [bc.hash_for_index(j) for j in range(bc.length())]
            ctx.check(chain2 == chain, "locking-does-not-change-the-reported-chain")
            ctx.check(bc.locked_length() == locked, "locked-length")


class _Recorder(object):
    def __init__(self, log):
        self.log = log

    def __call__(self, bc, ops):
        self.log.append(list(ops))


def _known(ctx, parents, batches, bi):
    pass


def obligations(tier):
    T = tier == "thorough"
    obs = []
    for n in (1, 2, 3):
        obs.append(Ob("C15.history.%dheaders" % n, history, "all forests on %d headers (parents: header / anchor / unknown), all delivery orders and batchings, symbolic weights" % n,
                      dict(n=n), weight=n, max_paths=400000, deadline_s=1200))
    for k in range(6):
        obs.append(Ob("C15.history.3headers.lock.order%d" % k, history, "3 headers with one lock_to_index call after any batch (delivery order %d of 6)" % k,
                      dict(n=3, with_lock=True, order_shard=k), weight=4, max_paths=400000, deadline_s=1200))
    obs.append(Ob("C15.history.3headers.duplicate", history, "3 headers, the first delivered again in every later batch", dict(n=3, dup=True), weight=3, max_paths=400000, deadline_s=1200))
    if T:
        for s in range(16):
            obs.append(Ob("C15.history.4headers.shard%d" % s, history, "all forests on 4 headers, shard %d/16 of the parent functions" % s,
                          dict(n=4, shard=s, nshards=16), weight=10, max_paths=2000000, deadline_s=3000))
    return obs
