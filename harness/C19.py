"""C19 - hash primitives give standard digests (pure-Python configuration)."""
import os
os.environ["PYCOIN_USE_PYTHON_RIPEMD160"] = "1"   # the configuration this check decides

from symx.api import Ob, imp, B, items_of, eq, cat, le, from_le, sym_and, ite
from refs import hashes_ref as ref

_validated = []


def _ref_ok():
    if not _validated:
        _validated.append(ref.validate())   # reference models must reproduce the published vectors first


META = dict(
    level_text="Bounded symbolic equivalence checking of the real pure-Python RIPEMD-160 (compression function and padding) and MurmurHash3/Bloom-filter "
               "code against transcriptions of the specifications: for every message length in the bound the message bytes, chaining state, seed "
               "and tweak are symbolic and z3 proves digest equality. Bounded in message length only.",
    level_note="Trusted: z3, symx proxies, refs/hashes_ref.py (validated at start of every run against the published RIPEMD-160 and MurmurHash3 vectors). "
               "SHA-256 is an uninterpreted function (hash160 = RIPEMD160(SHA256(x)) is checked as composition). The native hashlib RIPEMD-160 / SHA-256 "
               "(C code) configuration is NOT decided.",
    stubs=["hashlib.sha256 = uninterpreted function per input length (functional consistency only)"],
    assumptions=["PYCOIN_USE_PYTHON_RIPEMD160=1 (pure-Python RIPEMD-160 selected)"],
    outside=["native hashlib digests (C)", "messages longer than the stated length bound", "Bloom filters beyond the stated sizes / hash counts"],
)


def rmd_compress(ctx):
    _ref_ok()
    m = imp("pycoin.contrib.ripemd160")
    h = [ctx.sym_int("h%d" % i, 0, (1 << 34) - 1) for i in range(5)]   # state words arrive unmasked (up to 3 * 2^32)
    block = ctx.sym_bytes("block", 64)
    got = m.compress(*h, block)
    want = ref.rmd_compress([x & 0xFFFFFFFF for x in h], block)
    for i in range(5):
        ctx.check((got[i] & 0xFFFFFFFF) == want[i], "compress-word-%d" % i)


def rmd_full(ctx, n):
    _ref_ok()
    m = imp("pycoin.contrib.ripemd160")
    data = ctx.sym_bytes("data", n)
    got = m.ripemd160(data)
    want = ref.rmd160(data)
    ctx.check(len(got) == 20, "digest-length")
    ctx.check(eq(got, want), "ripemd160-digest")


def murmur(ctx, n, seed_bits):
    _ref_ok()
    m = imp("pycoin.bloomfilter")
    data = ctx.sym_bytes("data", n)
    seed = ctx.sym_int("seed", 0, (1 << seed_bits) - 1)
    got = m.murmur3(data, seed)
    ctx.check(got == ref.murmur3_x86_32(data, seed), "murmur3-equals-spec")


def bloom(ctx, size, nfuncs, n):
    _ref_ok()
    m = imp("pycoin.bloomfilter")
    data = ctx.sym_bytes("data", n)
    tweak = ctx.sym_int("tweak", 0, (1 << 32) - 1)
    f = m.BloomFilter(size, nfuncs, tweak)
    f.add_item(data)
    idxs = ref.bip37_bits(data, nfuncs, tweak, size)
    # expected filter: exactly the prescribed bits
    want = []
    for byte in range(size):
        v = 0
        for bit in range(8):
            hit = False
            for ix in idxs:
                from symx.api import sym_or
                hit = sym_or(hit, ix == byte * 8 + bit)
            v = v | ite(hit, 1 << bit, 0)
        want.append(v)
    ctx.check(eq(bytes(f.filter_bytes) if not ctx.symbolic else B(items_of(f.filter_bytes)), B(want)), "filter-has-exactly-bip37-bits")
    for ix in idxs:
        ctx.check(f.check_bit(ix), "inserted-item-matches")


def bloom_index(ctx, size):
    """bit addressing alone, for large filters: _index_for_bit(v) = (v % bits) >> 3, 1 << (v & 7)"""
    m = imp("pycoin.bloomfilter")
    f = m.BloomFilter(size, 1, 0)
    v = ctx.sym_int("v", 0, (1 << 32) - 1)
    byte_index, mask = f._index_for_bit(v)
    idx = v % (size * 8)
    ctx.check(byte_index == idx >> 3, "byte-index")
    ctx.check(mask == (1 << (idx & 7)), "bit-mask")


def compose(ctx, n):
    _ref_ok()
    h = imp("pycoin.encoding.hash")
    from symx.shims import hashlib_shim
    data = ctx.sym_bytes("data", n)
    if ctx.symbolic:
        inner = hashlib_shim.sha256(data).digest()
        inner2 = hashlib_shim.sha256(inner).digest()
    else:
        import hashlib
        inner = hashlib.sha256(data).digest()
        inner2 = hashlib.sha256(inner).digest()
    ctx.check(eq(h.hash160(data), ref.rmd160(inner)), "hash160-is-ripemd160-of-sha256")
    ctx.check(eq(h.double_sha256(data), inner2), "double_sha256-is-sha256-of-sha256")
    ctx.check(eq(h.ripemd160(data).digest(), ref.rmd160(data)), "ripemd160-object-digest")


def obligations(tier):
    T = tier == "thorough"
    obs = [Ob("C19.ripemd160.compress", rmd_compress, "arbitrary (unmasked, < 2^34) chaining state and arbitrary 64-byte block", expect=["compress-word-0"],
              rlimit=20_000_000, deadline_s=300, weight=10, cap=32)]
    lens = [0, 1, 54, 55, 56, 57, 63, 64, 65, 119, 120, 121, 127, 128] if not T else list(range(0, 131)) + [183, 184, 191, 192, 200]
    for n in lens:
        obs.append(Ob("C19.ripemd160.len%d" % n, rmd_full, "every message of %d bytes" % n, dict(n=n), expect=["ripemd160-digest"],
                      rlimit=20_000_000, deadline_s=300, weight=8, cap=32))
    for n in (range(0, 41) if not T else range(0, 81)):
        obs.append(Ob("C19.murmur3.len%d.seed32" % n, murmur, "every %d-byte input, every 32-bit seed" % n, dict(n=n, seed_bits=32), expect=["murmur3-equals-spec"], cap=32))
    for n in ([0, 1, 2, 3, 4, 5, 7, 20, 36] if not T else list(range(0, 41))):
        obs.append(Ob("C19.murmur3.len%d.seed72" % n, murmur, "every %d-byte input, every seed < 2^72 (unreduced hash_index*0xFBA4C795+tweak)" % n,
                      dict(n=n, seed_bits=72), expect=["murmur3-equals-spec"], cap=32))
    sizes = [(1, 1), (1, 3), (2, 2), (3, 1)] if not T else [(1, 1), (1, 2), (1, 3), (2, 1), (2, 2), (2, 3), (3, 1), (3, 2), (4, 2), (5, 1), (8, 2)]
    for size, k in sizes:
        for n in ((3, 20) if not T else (0, 3, 20)):
            obs.append(Ob("C19.bloom.size%d.k%d.len%d" % (size, k, n), bloom, "filter of %d bytes, %d hash functions, every %d-byte item and 32-bit tweak" % (size, k, n),
                          dict(size=size, nfuncs=k, n=n), expect=["filter-has-exactly-bip37-bits"], rlimit=100_000_000, weight=3, cap=32))
    for size in (1, 7, 1000, 36000):
        obs.append(Ob("C19.bloom.index.size%d" % size, bloom_index, "every 32-bit hash value, filter of %d bytes" % size, dict(size=size), expect=["byte-index"]))
    for n in ((0, 1, 33, 65) if not T else (0, 1, 20, 32, 33, 64, 65, 100)):
        obs.append(Ob("C19.compose.len%d" % n, compose, "every %d-byte input; SHA-256 uninterpreted" % n, dict(n=n),
                      expect=["hash160-is-ripemd160-of-sha256"], rlimit=20_000_000, weight=5, cap=32))
    return obs
