"""C05 - signing standard inputs yields valid canonical signatures, changing nothing else (small-order curve, arbitrary nonce function)."""
from symx.api import Ob, imp, B, items_of, eq, cat, sym_and, sym_or, sym_not, ite, truth
from harness import toy256
from harness.common import sym_tx_fields, build_tx

META = dict(
    level_text="Bounded symbolic checking of the real signing pipeline (Tx.sign -> Solver.solve -> determine_constraints -> signing_solver -> "
               "Generator.sign -> DER) followed by the real script interpreter under the full standard flag set: every field of the transaction "
               "(version, lock time, outpoints, sequences, amounts, the other input, output scripts) is symbolic, the signature hash is an uninterpreted "
               "function of the serialisation, and the group is a prime-order subgroup (order 7; 11 and 13 in the thorough tier) of a curve over a "
               "256-bit prime field, so that every secret key, every nonce and every residue of the signature hash is enumerated by the solver while "
               "the real 33/65-byte SEC, 32-byte scalar and DER code runs unchanged.",
    level_note="Trusted: z3, symx, refs/ec_ref.py (builds the subgroup tables), pycoin's own interpreter as the validity oracle (itself decided against "
               "the consensus reference under C03). The nonce function is ARBITRARY (any deterministic function of key and hash residue into [1, n-1]), "
               "which covers RFC 6979 (decided separately under C01). Production-size group arithmetic is not executed symbolically.",
    stubs=["curve = prime-order subgroup (7/11/13 elements) of y^2 = x^3 + 7 over a 256-bit prime p = 2 mod 3 (supersingular, p + 1 points)",
           "pycoin.coins.bitcoin.VM.secp256k1_generator and the network's generator = that subgroup's generator",
           "pycoin.ecdsa.Generator.deterministic_generate_k = arbitrary deterministic nonce table", "hashlib = uninterpreted functions (bound to the real digest on concrete data)"
           ],
    assumptions=["multisig obligations: a signature verifies under only one of the listed keys (on a group of n elements a second listed key verifies it with probability about 1/n; on secp256k1 that needs a chosen key) - paths where the signature about to be made is ambiguous are dropped",
                 "no SHA-256 digest is all-zero (Generator.sign raises ValueError on a zero signature hash, which Tx.sign swallows; probability 2**-256 per hash)"],
    outside=["secp256k1-size scalars (r, s with the high bit set: DER padding is decided under C10/C03)", "key chains backed by sqlite3 (Keychain) and WIF/BIP32 key supply: "
             "only the lookup-table mechanism (build_hash160_lookup / build_p2sh_lookup) is executed", "m-of-n beyond 2-of-3", "more than 2 inputs / 2 outputs",
             "coins other than BTC / BCH / BTG transaction classes"],
)

ALL, NONE, SINGLE, ACP, FORKID = 1, 2, 3, 0x80, 0x40
HASH_TYPES = [ALL, NONE, SINGLE, ALL | ACP, NONE | ACP, SINGLE | ACP]
_state = {}


def _flags(coin):
    F = imp("pycoin.satoshi.flags")
    std = (F.VERIFY_P2SH | F.VERIFY_STRICTENC | F.VERIFY_DERSIG | F.VERIFY_LOW_S | F.VERIFY_NULLDUMMY | F.VERIFY_SIGPUSHONLY | F.VERIFY_MINIMALDATA
           | F.VERIFY_DISCOURAGE_UPGRADABLE_NOPS | F.VERIFY_CLEANSTACK | F.VERIFY_CHECKLOCKTIMEVERIFY | F.VERIFY_CHECKSEQUENCEVERIFY | F.VERIFY_WITNESS
           | F.VERIFY_DISCOURAGE_UPGRADABLE_WITNESS_PROGRAM | F.VERIFY_MINIMALIF | F.VERIFY_NULLFAIL | F.VERIFY_WITNESS_PUBKEYTYPE)
    if coin != "btc":
        std &= ~F.VERIFY_STRICTENC      # the defined-hash-type rule has no fork-id-aware form in pycoin (property statement)
    return std


def _env(ctx, n, coin, listed=()):
    """network over the small subgroup; nonce function = arbitrary table indexed by (secret exponent, hash residue)"""
    c = toy256.curve(n)
    if ctx.symbolic:
        from symx.shims import hashlib_shim
        hashlib_shim.NONZERO_DIGESTS = True        # assumption: a signature hash is never 0 (Generator.sign refuses 0; probability 2**-256)
    GenMod = imp("pycoin.ecdsa.Generator")
    st = _state.get((n, coin))
    if st is None:
        g = GenMod.Generator(c["p"], c["a"], c["b"], c["G"], c["n"])
        Tx = imp({"btc": "pycoin.coins.bitcoin.Tx", "bch": "pycoin.coins.bcash.Tx", "btg": "pycoin.coins.bgold.Tx"}[coin]).Tx
        mk = imp("pycoin.networks.bitcoinish").create_bitcoinish_network
        net = mk(symbol="T%s" % coin.upper(), network_name="Toy", subnet_name="mainnet", generator=g, tx=Tx, wif_prefix_hex="80", address_prefix_hex="00",
                 pay_to_script_prefix_hex="05", bech32_hrp="bc", bip32_prv_prefix_hex="0488ade4", bip32_pub_prefix_hex="0488B21E")
        st = _state[(n, coin)] = (g, net)            # concrete, stateless objects: built once per process
    g, net = st
    imp("pycoin.coins.bitcoin.VM").secp256k1_generator = g
    table = {}                                       # the nonce function of THIS path

    def gen_k(order, se, val):
        res = ctx.concretize(val % order)
        key = (int(se), int(res))
        if key not in table:
            try:
                table[key] = ctx.concretize(ctx.sym_int("nonce.d%d.h%d" % key, 1, order - 1))
            except BaseException:
                if ctx.symbolic:
                    raise
                table[key] = 1 + (key[0] + key[1]) % (order - 1)       # replay on a transaction whose residue the trace did not visit
        if len(listed) > 1:
            ctx.assume(not _ambiguous(c, key[0], key[1], table[key], listed))
        return table[key]
    GenMod.deterministic_generate_k = gen_k
    return c, g, net


def _ambiguous(c, d, res, k, listed):
    """would the signature that key d makes on a hash of residue `res` with nonce k ALSO verify under another listed key?  On a group of 7-13
    elements this happens for about one key in n (the verification equation has n - 1 candidate exponents); on secp256k1 it needs a chosen key.
    Follows Generator.sign_with_recid's retry rule (k + 1, wrapping to 1) to find the nonce actually used."""
    n, t = c["n"], c["table"]
    for _ in range(n):
        r = t[k][0] % n
        s = pow(k, -1, n) * (res + d * r) % n
        if r != 0 and s != 0:
            break
        k = k + 1 if k + 1 < n else 1
    else:
        return True
    w = pow(s, -1, n)
    for d2 in listed:
        if d2 == d:
            continue
        e = (res * w + r * w * d2) % n
        if e != 0 and t[e][0] % n == r:
            return True
    return False


def _puzzle(net, kind, secs, m=1):
    """-> (puzzle script of the coin being spent, [redeem / witness scripts for the p2sh lookup])"""
    C = net.contract
    if kind == "p2pk":
        return C.for_p2pk(secs[0]), []
    h = imp("pycoin.encoding.hash").hash160
    if kind == "p2pkh":
        return C.for_p2pkh(h(secs[0])), []
    if kind == "p2wpkh":
        return C.for_p2pkh_wit(h(secs[0])), []
    if kind == "p2sh-p2wpkh":
        inner = C.for_p2pkh_wit(h(secs[0]))
        return C.for_p2s(inner), [inner]
    ms = C.for_multisig(m, secs)
    if kind == "ms":
        return ms, []
    if kind == "p2sh-ms":
        return C.for_p2s(ms), [ms]
    if kind == "p2wsh-ms":
        return C.for_p2s_wit(ms), [ms]
    if kind == "p2sh-p2wsh-ms":
        w = C.for_p2s_wit(ms)
        return C.for_p2s(w), [ms, w]
    raise ValueError(kind)


def _snapshot(tx, skip):
    """everything signing must not touch"""
    s = [("version", tx.version), ("lock_time", tx.lock_time), ("n_in", len(tx.txs_in)), ("n_out", len(tx.txs_out))]
    for i, ti in enumerate(tx.txs_in):
        s += [("in%d.prev_hash" % i, ti.previous_hash), ("in%d.prev_index" % i, ti.previous_index), ("in%d.sequence" % i, ti.sequence)]
        if i not in skip:
            s += [("in%d.script" % i, ti.script), ("in%d.witness" % i, list(ti.witness))]
    for i, to in enumerate(tx.txs_out):
        s += [("out%d.value" % i, to.coin_value), ("out%d.script" % i, to.script)]
    return s


def _same(a, b):
    if isinstance(a, list) or isinstance(b, list):
        return len(a) == len(b) and sym_and(True, *[_same(x, y) for x, y in zip(a, b)])
    if isinstance(a, (bytes, bytearray)) or hasattr(a, "items"):
        return eq(a, b)
    return a == b


def _unchanged(ctx, before, tx, skip, label):
    after = _snapshot(tx, skip)
    ctx.check(len(before) == len(after) and sym_and(True, *[_same(x[1], y[1]) for x, y in zip(before, after)]), label)


def _signatures(net, tx, idx):
    """signature blobs (DER + hash type byte) found in the unlocking script and witness of input idx"""
    out = []
    for opcode, data, pc, new_pc in net.script.get_opcodes(tx.txs_in[idx].script):
        if data is not None and len(data) >= 9 and data[0] == 0x30:
            out.append(data)
    for w in tx.txs_in[idx].witness:
        if len(w) >= 9 and w[0] == 0x30 and len(w) < 20:
            out.append(w)
    return out


def _tx(ctx, net, n_in, n_out, idx, puzzle, salt):
    f = sym_tx_fields(ctx, dict(ins=[dict(script=0)] * n_in, outs=[dict(script=2)] * n_out))
    if salt:
        f["lock_time"] = (f["lock_time"] + salt) & 0xFFFFFFFF           # replay only: other hash residues
    tx = build_tx(net.tx, f)
    other = b"\x51\x52\x93"                     # the other input spends an unrelated, keyless puzzle
    coins = []
    for i in range(n_in):
        v = ctx.sym_int("coin%d.value" % i, 0, 21 * 10 ** 14)
        coins.append(net.tx.TxOut(v, puzzle if i == idx else other))
    tx.set_unspents(coins)
    return tx


def _run(ctx, body):
    """symbolic: one pass.  Replay: the same scenario on 48 transactions differing in lock time, so that every hash residue is visited"""
    if ctx.symbolic:
        return body(0)
    from symx.core import AssumeFailed
    ran = 0
    for salt in range(48):
        try:
            body(salt)
            ran += 1
        except AssumeFailed:
            pass                    # this transaction's hash residue falls outside the stated assumptions
    if not ran:
        raise AssumeFailed("no salted transaction satisfies the assumptions")


def single_key(ctx, n, coin, kind, compressed, shape, hash_types=None, keys=None):
    def body(salt):
        c, g, net = _env(ctx, n, coin)
        d = ctx.sym_int("d", 1, n - 1)
        if keys:
            ctx.assume(sym_or(*[d == k for k in keys]))
        d = ctx.concretize(d)
        hash_type = ctx.choose("hash_type", hash_types or HASH_TYPES)
        key = net.keys.private(d)
        sec = key.sec(is_compressed=compressed)
        puzzle, redeem = _puzzle(net, kind, [sec])
        n_in, n_out, idx = shape
        tx = _tx(ctx, net, n_in, n_out, idx, puzzle, salt)
        before = _snapshot(tx, {idx})
        flags = _flags(coin)
        ctx.check(not tx.is_solution_ok(idx, flags=flags), "unsigned-input-does-not-validate")
        lookup = net.tx.solve.build_hash160_lookup([d])
        p2sh = net.tx.solve.build_p2sh_lookup(redeem)
        try:
            tx.sign(lookup, hash_type=hash_type, p2sh_lookup=p2sh)
        except Exception as e:
            ctx.note("sign raised %r" % (e,))
            ctx.check(False, "sign-does-not-raise")
        ok = tx.is_solution_ok(idx, flags=flags)
        if not ok:
            try:
                tx.check_solution(idx, flags=flags)
            except Exception as e:
                ctx.note("validation error: %r; script %s witness %s" % (e, bytes(tx.txs_in[idx].script).hex() if not ctx.symbolic else "", ""))
        ctx.check(ok, "signed-input-validates-under-standard-flags")
        _unchanged(ctx, before, tx, {idx}, "signing-changes-only-the-signed-input")
        want = hash_type | (FORKID if coin != "btc" else 0)
        sigs = _signatures(net, tx, idx)
        ctx.check(len(sigs) == 1, "exactly-one-signature-emitted")
        ctx.check(sigs[0][len(sigs[0]) - 1] == want, "signature-carries-the-requested-hash-type")
        # already valid: a second pass (asking for a different hash type) must leave it alone
        s1, w1 = tx.txs_in[idx].script, list(tx.txs_in[idx].witness)
        other_type = NONE if hash_type != NONE else ALL
        tx.sign(lookup, hash_type=other_type, p2sh_lookup=p2sh)
        ctx.check(sym_and(_same(tx.txs_in[idx].script, s1), _same(list(tx.txs_in[idx].witness), w1)), "valid-input-is-not-resigned")
        _unchanged(ctx, before, tx, {idx}, "second-pass-changes-nothing-else")
    _run(ctx, body)


def wrong_key(ctx, n, coin, kind):
    """a lookup that holds only an unrelated key: the input must be left failing validation, nothing else touched"""
    def body(salt):
        c, g, net = _env(ctx, n, coin)
        d = ctx.concretize(ctx.sym_int("d", 1, n - 1))
        d2 = ctx.concretize(ctx.sym_int("d_other", 1, n - 1))
        ctx.assume(d != d2)
        sec = net.keys.private(d).sec()
        puzzle, redeem = _puzzle(net, kind, [sec])
        tx = _tx(ctx, net, 2, 2, 0, puzzle, salt)
        before = _snapshot(tx, {0})
        try:
            tx.sign(net.tx.solve.build_hash160_lookup([d2]), p2sh_lookup=net.tx.solve.build_p2sh_lookup(redeem))
        except Exception as e:
            ctx.note("sign raised %r" % (e,))          # refusing loudly is acceptable
        ctx.check(not tx.is_solution_ok(0, flags=_flags(coin)), "wrong-key-never-yields-a-valid-input")
        _unchanged(ctx, before, tx, {0}, "signing-changes-only-the-signed-input")
    _run(ctx, body)


def multisig(ctx, n, coin, kind, m, nkeys, order, hash_types=(ALL,)):
    """keys supplied one at a time in the given order: valid exactly when m distinct listed keys have signed"""
    def body(salt):
        ds = [1 + ((2 * j + 1) % (n - 1)) for j in range(nkeys)]          # distinct concrete keys: the enumeration is over nonces and hash residues
        assert len(set(ds)) == nkeys
        c, g, net = _env(ctx, n, coin, listed=ds)
        hash_type = ctx.choose("hash_type", list(hash_types))
        secs = [net.keys.private(d).sec() for d in ds]
        puzzle, redeem = _puzzle(net, kind, secs, m)
        tx = _tx(ctx, net, 2, 2, 0, puzzle, salt)
        before = _snapshot(tx, {0})
        flags = _flags(coin)
        p2sh = net.tx.solve.build_p2sh_lookup(redeem)
        signed = set()
        for j in order:
            was_valid = tx.is_solution_ok(0, flags=flags)
            s0, w0 = tx.txs_in[0].script, list(tx.txs_in[0].witness)
            try:
                tx.sign(net.tx.solve.build_hash160_lookup([ds[j]]), hash_type=hash_type, p2sh_lookup=p2sh)
            except Exception as e:
                ctx.note("sign raised %r" % (e,))
                ctx.check(False, "sign-does-not-raise")
            signed.add(j)
            ok = tx.is_solution_ok(0, flags=flags)
            ctx.check(ok == (len(signed) >= m), "multisig-valid-exactly-when-m-distinct-keys-have-signed")
            if was_valid:
                ctx.check(sym_and(_same(tx.txs_in[0].script, s0), _same(list(tx.txs_in[0].witness), w0)), "valid-input-is-not-resigned")
            _unchanged(ctx, before, tx, {0}, "signing-changes-only-the-signed-input")
        want = hash_type | (FORKID if coin != "btc" else 0)
        for s in _signatures(net, tx, 0):
            ctx.check(s[len(s) - 1] == want, "signature-carries-the-requested-hash-type")
    _run(ctx, body)


def obligations(tier):
    T = tier == "thorough"
    obs = []
    orders = [7] + ([11, 13] if T else [])
    for n in orders:
        for coin in ("btc", "bch", "btg"):
            for kind in ("p2pkh", "p2pk", "p2wpkh", "p2sh-p2wpkh"):
                for compressed in ((True, False) if kind in ("p2pkh", "p2pk") else (True,)):
                    for shape in ((2, 2, 0), (2, 1, 1)):
                        main = kind == "p2pkh" and compressed
                        if not T:
                            if coin != "btc" and (kind in ("p2wpkh", "p2sh-p2wpkh") or not compressed):
                                continue
                            if shape == (2, 1, 1) and not main:
                                continue
                        elif n == 11 and not ((main or kind == "p2wpkh") and shape == (2, 2, 0)):
                            continue
                        elif n == 13 and not ((main or kind == "p2wpkh") and shape == (2, 2, 0) and coin == "btc"):
                            continue
                        full = T or (main and shape == (2, 2, 0) and coin in ("btc", "btg"))
                        groups = [HASH_TYPES[0:2], HASH_TYPES[2:4], HASH_TYPES[4:6]] if full else [[ALL, SINGLE | ACP]]
                        keys = None if full else [2, n - 2]
                        for hts in groups:
                            obs.append(Ob("C05.single.n%d.%s.%s.%s.in%d-out%d-idx%d.ht%s" % ((n, coin, kind, "c" if compressed else "u") + shape + ("-".join("%02x" % h for h in hts),)),
                                          single_key,
                                          "%s puzzle (%s key) on the %s transaction class: %s, every nonce and hash residue of the order-%d group, hash types %s, "
                                          "every value of every other transaction field; input %d of a %d-in %d-out transaction" % (
                                              kind, "compressed" if compressed else "uncompressed", coin.upper(), "every key" if keys is None else "keys %r" % (keys,), n,
                                              ",".join("0x%02x" % h for h in hts), shape[2], shape[0], shape[1]),
                                          dict(n=n, coin=coin, kind=kind, compressed=compressed, shape=shape, hash_types=hts, keys=keys), weight=6 if full else 2,
                                          max_paths=200000, deadline_s=1800))
            for kind in (("p2pkh", "p2wpkh") if coin == "btc" or T else ("p2pkh",)):
                obs.append(Ob("C05.wrong-key.n%d.%s.%s" % (n, coin, kind), wrong_key, "%s on %s: lookup holding only an unrelated key" % (kind, coin.upper()),
                              dict(n=n, coin=coin, kind=kind), weight=3, deadline_s=900))
        if n != 7:
            continue
        ms_cases = [("btc", "p2sh-ms", 2, 2, (0, 1), (ALL,)), ("btc", "p2sh-ms", 2, 2, (1, 0), (SINGLE | ACP,)), ("btc", "p2wsh-ms", 2, 3, (2, 0), (ALL,)),
                    ("btc", "ms", 1, 2, (1, 0), (NONE | ACP,)), ("bch", "p2sh-ms", 2, 3, (1, 2), (ALL,)), ("btc", "p2sh-p2wsh-ms", 2, 2, (1, 0), (ALL,)),
                    ("btc", "p2sh-ms", 2, 3, (0, 0, 2), (ALL,)), ("btc", "p2wsh-ms", 2, 2, (1, 1, 0), (ALL,))]       # a key offered again before the others
        if T:
            ms_cases += [(coin, kind, 2, 3, o, (ALL, SINGLE | ACP)) for coin in ("btc", "btg") for kind in ("ms", "p2sh-ms", "p2wsh-ms")
                         for o in ((0, 1), (1, 0), (0, 2), (2, 0), (1, 2), (2, 1), (0, 0, 1), (2, 2, 1))]
        for coin, kind, m, nk, order, hts in ms_cases:
            obs.append(Ob("C05.multisig.n%d.%s.%s.%dof%d.order%s.ht%s" % (n, coin, kind, m, nk, "".join(map(str, order)), "-".join("%02x" % h for h in hts)), multisig,
                          "%d-of-%d %s on %s signed one key at a time in order %s, hash types %s: every nonce and hash residue" % (
                              m, nk, kind, coin.upper(), order, ",".join("0x%02x" % h for h in hts)),
                          dict(n=n, coin=coin, kind=kind, m=m, nkeys=nk, order=order, hash_types=hts), weight=8, max_paths=200000, deadline_s=1500))
    return obs
