"""C06 - validation is tamper-evident: signatures bind what their hash type commits (commitment level)."""
from symx.api import Ob, imp, B, items_of, eq, cat, le, sym_and, sym_or, sym_not, ite, truth
from harness.common import sym_tx_fields, build_tx

META = dict(
    level_text="Bounded symbolic checking of what the real signature-hash code commits to: for a symbolic transaction T and a copy T' that differs "
               "in exactly one field (chosen by case split, the new value symbolic and different), the real legacy / BIP143 / fork-id digests of T and T' "
               "are equal exactly when the consensus rules say the field is outside the commitment of that hash type. With signatures idealised "
               "(a signature verifies for exactly one digest) this is the statement that validation flips exactly for committed changes. "
               "Also: an input whose spent output is unknown is never reported valid.",
    level_note="Trusted: z3, symx, the commitment table `committed()` in this harness (transcribed from SignatureHash / BIP143). SHA-256 is uninterpreted and "
               "assumed collision-free on the occurring inputs, so digest equality is preimage equality. Real ECDSA is not executed.",
    stubs=["hashlib.sha256 = uninterpreted, injective on occurring inputs (stated assumption)", "signatures idealised: valid for exactly one digest"],
    assumptions=["no SHA-256 collision among the finitely many hash inputs that occur"],
    outside=["insertion/removal/reordering of inputs and outputs (only single-field value changes)", "real signatures; repeated validation through the script VM (staleness is checked at the digest level)",
             "more than 2 inputs x 2 outputs"],
)

FIELDS = ["version", "lock_time", "in0.prev_hash", "in0.prev_index", "in0.sequence", "in0.script", "in1.prev_hash", "in1.prev_index", "in1.sequence", "in1.script",
          "out0.value", "out0.script", "out1.value", "out1.script", "amount0", "amount1", "script_code"]


def committed(field, idx, hash_type, n_in, n_out, segwit):
    """is `field` inside the commitment of input idx's signature with this hash type?  (bool; forks on the hash type)"""
    base = hash_type & 0x1F
    acp = bool(truth((hash_type & 0x80) != 0))
    single = bool(truth(base == 3))
    none = bool(truth(base == 2))
    if not segwit and single and idx >= n_out:
        return False                       # legacy: the digest is the constant 1
    if field in ("version", "lock_time", "script_code"):
        return True
    if field.startswith("amount"):
        return segwit and int(field[6:]) == idx
    kind, j = field.split(".")[0][:-1], int(field.split(".")[0][-1])
    what = field.split(".")[1]
    if kind == "in":
        if j >= n_in:
            return None
        if what == "script":
            return False
        if j == idx:
            return True
        if acp:
            return False
        if what == "sequence":
            return not (single or none)
        return True
    if j >= n_out:
        return None
    if none:
        return False
    if single:
        return j == idx
    return True


def commit(ctx, mode, idx, n_in, n_out):
    mods = {"legacy": "pycoin.coins.bitcoin.Tx", "bip143": "pycoin.coins.bitcoin.Tx", "bch": "pycoin.coins.bcash.Tx", "btg": "pycoin.coins.bgold.Tx"}
    Tx = imp(mods[mode]).Tx
    segwit = mode != "legacy"
    shape = dict(ins=[dict(script=2)] * n_in, outs=[dict(script=2)] * n_out)
    f = sym_tx_fields(ctx, shape)
    amounts = [ctx.sym_int("amount%d" % k, 0, (1 << 64) - 1) for k in range(n_in)]
    code = B([0x76, 0xA9, 0x51, 0xAC]) if False else ctx.sym_bytes("script_code", 2)
    for it in items_of(code):
        ctx.assume(sym_or(it == 0x51, it == 0xAC, it == 0x75))      # no code separators / pushes: FindAndDelete is C04's subject
    hash_type = ctx.sym_int("hash_type", 0, 0xFF)
    if mode in ("bch", "btg"):
        ctx.assume((hash_type & 0x40) != 0)
    field = ctx.choose("field", FIELDS)
    # the tampered copy
    import copy
    g = copy.deepcopy({k: v for k, v in f.items() if k in ("version", "lock_time")})
    g["ins"] = [dict(i) for i in f["ins"]]
    g["outs"] = [dict(o) for o in f["outs"]]
    amounts2 = list(amounts)
    code2 = code
    if field[:2] == "in" and int(field[2]) >= n_in or field[:3] == "out" and int(field[3]) >= n_out or field[:6] == "amount" and int(field[6:]) >= n_in:
        raise __import__("symx.core", fromlist=["x"]).AssumeFailed("field absent in this shape")
    is_c = committed(field, idx, hash_type, n_in, n_out, segwit)
    if is_c is None:
        raise __import__("symx.core", fromlist=["x"]).AssumeFailed("field absent in this shape")

    def fresh_int(name, old, hi):
        v = ctx.sym_int("new." + name, 0, hi)
        ctx.assume(v != old)
        return v

    def fresh_bytes(name, old):
        v = ctx.sym_bytes("new." + name, len(old))
        ctx.assume(sym_not(eq(v, old)))
        return v
    if field in ("version", "lock_time"):
        g[field] = fresh_int(field, f[field], 0xFFFFFFFF)
    elif field == "script_code":
        code2 = ctx.sym_bytes("new.script_code", 2)
        for it in items_of(code2):
            ctx.assume(sym_or(it == 0x51, it == 0xAC, it == 0x75))
        ctx.assume(sym_not(eq(code2, code)))
    elif field.startswith("amount"):
        j = int(field[6:])
        if j >= n_in:
            raise __import__("symx.core", fromlist=["x"]).AssumeFailed("absent")
        amounts2[j] = fresh_int(field, amounts[j], (1 << 64) - 1)
    else:
        side, what = field.split(".")
        j = int(side[-1])
        tgt = (g["ins"] if side.startswith("in") else g["outs"])[j]
        key = {"prev_hash": "prev_hash", "prev_index": "prev_index", "sequence": "sequence", "script": "script", "value": "value"}[what]
        old = tgt[key]
        tgt[key] = fresh_bytes(field, old) if key in ("prev_hash", "script") else fresh_int(field, old, (1 << 64) - 1 if key == "value" else 0xFFFFFFFF)

    def digest(fields, amts, sc):
        tx = build_tx(Tx, fields)
        tx.set_unspents([Tx.TxOut(a, b"\x51") for a in amts])
        chk = Tx.SolutionChecker(tx)
        if mode == "legacy":
            return chk._signature_hash(sc, idx, hash_type)
        if mode == "bip143":
            return chk._signature_for_hash_type_segwit(sc, idx, hash_type)
        return chk._signature_hash(sc, idx, hash_type)
    def outer_preimage():
        # the input of the outermost hash application made by the digest code (symbolic mode): under the collision-freeness
        # assumption two digests are equal exactly when these preimages are (recursively through the inner BIP143 hashes)
        return list(ctx.uf_apps[-1][1])
    d1 = digest(f, amounts, code)
    p1 = outer_preimage() if ctx.symbolic and not isinstance(d1, int) else None
    d2 = digest(g, amounts2, code2)
    p2 = outer_preimage() if ctx.symbolic and not isinstance(d2, int) else None
    if ctx.symbolic:
        from symx.seq import seq_eq
        same = seq_eq(p1, p2) if (p1 is not None and p2 is not None) else (d1 == d2)
    else:
        same = d1 == d2
    if is_c:
        ctx.check(sym_not(same), "change-to-a-committed-field-changes-the-digest")
    else:
        ctx.check(same, "change-outside-the-commitment-leaves-the-digest")


def stale(ctx, mode, idx):
    """compute a digest, mutate one field of the SAME transaction object in place, compute again: must equal a fresh object's digest"""
    mods = {"legacy": "pycoin.coins.bitcoin.Tx", "bip143": "pycoin.coins.bitcoin.Tx", "bch": "pycoin.coins.bcash.Tx"}
    Tx = imp(mods[mode]).Tx
    n_in, n_out = 2, 2
    f = sym_tx_fields(ctx, dict(ins=[dict(script=2)] * n_in, outs=[dict(script=2)] * n_out))
    amounts = [ctx.sym_int("amount%d" % k, 0, (1 << 64) - 1) for k in range(n_in)]
    code = b"\x51\xac"
    hash_type = ctx.sym_int("hash_type", 0, 0xFF)
    if mode == "bch":
        ctx.assume((hash_type & 0x40) != 0)

    def digest(tx):
        chk = Tx.SolutionChecker(tx)
        if mode == "bip143":
            return chk._signature_for_hash_type_segwit(code, idx, hash_type)
        return chk._signature_hash(code, idx, hash_type)
    tx = build_tx(Tx, f)
    tx.set_unspents([Tx.TxOut(a, b"\x51") for a in amounts])
    digest(tx)
    what = ctx.choose("mutated", ["version", "lock_time", "in.prev_hash", "in.prev_index", "in.sequence", "out.value", "out.script", "amount"])
    j = ctx.choose("position", [0, 1])
    if what == "version":
        f["version"] = tx.version = ctx.sym_int("new", 0, 0xFFFFFFFF)
    elif what == "lock_time":
        f["lock_time"] = tx.lock_time = ctx.sym_int("new", 0, 0xFFFFFFFF)
    elif what == "in.prev_hash":
        f["ins"][j]["prev_hash"] = tx.txs_in[j].previous_hash = ctx.sym_bytes("new", 32)
    elif what == "in.prev_index":
        f["ins"][j]["prev_index"] = tx.txs_in[j].previous_index = ctx.sym_int("new", 0, 0xFFFFFFFF)
    elif what == "in.sequence":
        f["ins"][j]["sequence"] = tx.txs_in[j].sequence = ctx.sym_int("new", 0, 0xFFFFFFFF)
    elif what == "out.value":
        f["outs"][j]["value"] = tx.txs_out[j].coin_value = ctx.sym_int("new", 0, (1 << 64) - 1)
    elif what == "out.script":
        f["outs"][j]["script"] = tx.txs_out[j].script = ctx.sym_bytes("new", 2)
    else:
        amounts[j] = ctx.sym_int("new", 0, (1 << 64) - 1)
        tx.unspents[j].coin_value = amounts[j]
    d2 = digest(tx)
    p2 = list(ctx.uf_apps[-1][1]) if ctx.symbolic and not isinstance(d2, int) else None
    fresh = build_tx(Tx, f)
    fresh.set_unspents([Tx.TxOut(a, b"\x51") for a in amounts])
    d3 = digest(fresh)
    p3 = list(ctx.uf_apps[-1][1]) if ctx.symbolic and not isinstance(d3, int) else None
    if p2 is not None and p3 is not None:
        from symx.seq import seq_eq
        ctx.check(seq_eq(p2, p3), "digest-after-in-place-mutation-equals-fresh-object")
    else:
        ctx.check(d2 == d3, "digest-after-in-place-mutation-equals-fresh-object")


def missing_unspent(ctx, n_in, which):
    Tx = imp("pycoin.coins.bitcoin.Tx").Tx
    f = sym_tx_fields(ctx, dict(ins=[dict(script=1)] * n_in, outs=[dict(script=1)]))
    tx = build_tx(Tx, f)
    flags = ctx.sym_int("flags", 0, 0xFFFF)
    us = [Tx.TxOut(1, b"\x51") for _ in range(n_in)]     # anyone-can-spend puzzles: would validate if known
    if which == "none-entry":
        us[n_in - 1] = None
    elif which == "short-list":
        us = us[:n_in - 1]
    elif which == "empty":
        us = []
    tx.unspents = us
    ctx.check(tx.is_solution_ok(n_in - 1, flags=flags) is False, "input-with-unknown-spent-output-is-not-valid")
    ctx.check(tx.bad_solution_count(flags=flags) >= 1 or bool(tx.is_coinbase()), "counted-as-bad")


def obligations(tier):
    T = tier == "thorough"
    obs = []
    for mode in ("legacy", "bip143", "bch") + (("btg",) if T else ()):
        for (n_in, n_out) in ([(2, 2), (2, 1)] if not T else [(2, 2), (2, 1), (1, 2), (1, 1)]):
            for idx in range(n_in):
                obs.append(Ob("C06.commit.%s.%din-%dout.idx%d" % (mode, n_in, n_out, idx), commit,
                              "%s digest, %d inputs x %d outputs, signing input %d: every single-field change (17 fields), all 256 hash-type bytes" % (mode, n_in, n_out, idx),
                              dict(mode=mode, idx=idx, n_in=n_in, n_out=n_out), weight=4, collision_free=True, max_paths=100000, deadline_s=900))
    for mode in ("legacy", "bip143", "bch"):
        for idx in (0, 1):
            obs.append(Ob("C06.no-stale-state.%s.idx%d" % (mode, idx), stale, "%s digest of input %d, then any single field mutated in place on the same object" % (mode, idx),
                          dict(mode=mode, idx=idx), weight=3, collision_free=True, max_paths=50000))
    for n_in in (1, 2):
        for which in ("none-entry", "short-list", "empty"):
            obs.append(Ob("C06.missing-unspent.%din.%s" % (n_in, which), missing_unspent, "%d inputs, unspents %s, all flags" % (n_in, which), dict(n_in=n_in, which=which)))
    return obs
