"""C13 - transaction construction conserves value to the satoshi."""
from symx.api import Ob, imp, B, items_of, eq, cat, le, sym_and, sym_or, sym_not, ite, truth, SymDict
from refs import wire
from harness.common import sym_tx_fields, build_tx

MAX = 21 * 10 ** 14

META = dict(
    level_text="Bounded symbolic checking of the real split_with_remainder / distribute_from_split_pool / create_tx / fee / validate_unspents code: all "
               "amounts and the fee are symbolic integers over their whole range for each enumerated list shape; exact conservation, positivity, the "
               "one-satoshi spread and the error conditions are proved per path.",
    level_note="Trusted: z3, symx. Shapes: <= 3 spendables, <= 4 outputs, <= 2 source transactions. The BTC/mBTC <-> satoshi clause is decimal.Decimal "
               "arithmetic (C implementation) and is NOT decided by this check.",
    stubs=["hashlib.sha256 uninterpreted (source-transaction ids)"],
    assumptions=["source transaction ids are distinct and none is the all-zero id", "a spendable never carries the null outpoint (00..00, 0xffffffff)"],
    outside=["decimal conversion functions (convention/__init__.py) - not encodable", "lists longer than the stated shapes", "fee='standard' estimation"],
)


def split(ctx, n):
    m = imp("pycoin.coins.tx_utils")
    total = ctx.sym_int("total", 0, (1 << 64) - 1)
    parts = list(m.split_with_remainder(total, n))
    ctx.check(len(parts) == n, "count")
    s = 0
    for p in parts:
        s = s + p
    ctx.check(s == total, "parts-sum-to-total")
    ctx.check(sym_and(*[parts[i] >= parts[i + 1] for i in range(n - 1)]) if n > 1 else True, "earlier-parts-get-the-remainder")
    ctx.check(parts[0] - parts[-1] <= 1, "spread-at-most-one")


def distribute(ctx, n_in, kinds):
    """kinds: tuple of 'fixed' / 'pool' per output"""
    m = imp("pycoin.coins.tx_utils")
    Tx = imp("pycoin.coins.bitcoin.Tx").Tx
    ins = [ctx.sym_int("in%d" % i, 1, MAX) for i in range(n_in)]
    fee = ctx.sym_int("fee", 0, 1 << 62)
    outs = []
    for k, kind in enumerate(kinds):
        outs.append(0 if kind == "pool" else ctx.sym_int("out%d" % k, 1, MAX))
    tx = Tx(1, [Tx.TxIn(bytes([i + 1]) * 32, i, b"") for i in range(n_in)], [Tx.TxOut(v, b"\x51") for v in outs])
    tx.set_unspents([Tx.TxOut(v, b"\x51") for v in ins])
    total_in = 0
    for v in ins:
        total_in = total_in + v
    fixed = 0
    for v in outs:
        fixed = fixed + v
    pool = [k for k, kind in enumerate(kinds) if kind == "pool"]
    remaining = total_in - fixed - fee
    try:
        m.distribute_from_split_pool(tx, fee)
        raised = False
    except ValueError:
        raised = True
    if not pool:
        ctx.check(not raised, "nothing-to-distribute")
        ctx.check(sym_and(*[tx.txs_out[k].coin_value == outs[k] for k in range(len(outs))]), "fixed-outputs-untouched")
        return
    ctx.check(eq(raised, truth(remaining < len(pool))) if ctx.symbolic else raised == (remaining < len(pool)), "error-exactly-when-funds-insufficient")
    if raised:
        return
    total_out = 0
    for o in tx.txs_out:
        total_out = total_out + o.coin_value
    ctx.check(total_out + fee == total_in, "outputs-plus-fee-equal-inputs")
    ctx.check(tx.fee() == fee, "reported-fee-is-inputs-minus-outputs")
    ctx.check(sym_and(*[tx.txs_out[k].coin_value == outs[k] for k in range(len(outs)) if kinds[k] == "fixed"]) if len(pool) < len(outs) else True, "fixed-outputs-untouched")
    pv = [tx.txs_out[k].coin_value for k in pool]
    ctx.check(sym_and(*[v >= 1 for v in pv]), "unspecified-outputs-positive")
    ctx.check(sym_and(*[pv[i] >= pv[i + 1] for i in range(len(pv) - 1)]) if len(pv) > 1 else True, "earlier-unspecified-outputs-get-the-remainder")
    ctx.check(pv[0] - pv[-1] <= 1, "unspecified-outputs-differ-by-at-most-one")


ADDRS = ["1BgGZ9tcN4rm9KBzDn7KprQz87SZ26SAMH", "1cMh228HTCiwS8ZsaakH8A8wze1JR5ZsP", "3J98t1WpEZ73CNmQviecrnyiWrnqRhWNLy"]


def create(ctx, n_in, kinds):
    net = imp("pycoin.symbols.btc").network
    Sp = net.tx.Spendable
    sps = []
    for i in range(n_in):
        sps.append(Sp(ctx.sym_int("in%d" % i, 1, MAX), ctx.sym_bytes("script%d" % i, 2), ctx.sym_bytes("txhash%d" % i, 32), ctx.sym_int("index%d" % i, 0, 0xFFFFFFFF)))
    for sp in sps:
        ctx.assume(sym_not(sym_and(eq(sp.tx_hash, bytes(32)), sp.tx_out_index == 0xFFFFFFFF)))   # a spendable is never the null outpoint
    fee = ctx.sym_int("fee", 0, 1 << 62)
    payables = []
    vals = []
    for k, kind in enumerate(kinds):
        if kind == "pool":
            payables.append(ADDRS[k % 3] if k % 2 == 0 else (ADDRS[k % 3], 0))
            vals.append(0)
        else:
            v = ctx.sym_int("out%d" % k, 1, MAX)
            payables.append((ADDRS[k % 3], v))
            vals.append(v)
    total_in = 0
    for s in sps:
        total_in = total_in + s.coin_value
    fixed = 0
    for v in vals:
        fixed = fixed + v
    n_pool = sum(1 for kind in kinds if kind == "pool")
    try:
        tx = net.tx_utils.create_tx(sps, payables, fee=fee)
        raised = False
    except ValueError:
        raised = True
    remaining = total_in - fixed - fee
    if n_pool:
        ctx.check(eq(raised, truth(remaining < n_pool)) if ctx.symbolic else raised == (remaining < n_pool), "insufficient-funds-raise")
    if raised:
        return
    ctx.check(len(tx.txs_in) == n_in and len(tx.unspents) == n_in, "one-input-per-spendable")
    ctx.check(sym_and(*[sym_and(eq(tx.txs_in[i].previous_hash, sps[i].tx_hash), tx.txs_in[i].previous_index == sps[i].tx_out_index,
                                tx.unspents[i].coin_value == sps[i].coin_value, eq(tx.unspents[i].script, sps[i].script)) for i in range(n_in)]),
              "inputs-paired-with-their-spendables")
    if n_pool:
        ctx.check(tx.total_out() + fee == tx.total_in(), "outputs-plus-fee-equal-inputs")
    ctx.check(tx.fee() == tx.total_in() - tx.total_out(), "fee-is-inputs-minus-outputs")
    ctx.check(tx.total_in() == total_in, "total-in-is-sum-of-spendables")


class _Db(object):
    def __init__(self, d):
        self.d = d

    def get(self, k, default=None):
        return self.d.get(k, default)


def validate(ctx, layout, what):
    """layout: list of (source index, output index) per input; what: which recorded field differs ('none','value','script')"""
    Tx = imp("pycoin.coins.bitcoin.Tx").Tx
    exc = imp("pycoin.coins.exceptions")
    if ctx.symbolic:
        from symx.shims import hashlib_shim as h
    else:
        import hashlib as h
    H = lambda b: h.sha256(h.sha256(b).digest()).digest()
    n_src = max(s for s, _ in layout) + 1
    srcs = []
    for s in range(n_src):
        f = sym_tx_fields(ctx, dict(ins=[dict(script=1)], outs=[dict(script=2), dict(script=2)]), prefix="src%d." % s)
        for o in f["outs"]:
            o["value"] = ctx.sym_int("src%d.val%d" % (s, f["outs"].index(o)), 1, MAX)
        srcs.append((f, build_tx(Tx, f), H(wire.ser_tx(f, with_witness=False))))
    if n_src == 2:
        ctx.assume(sym_not(eq(srcs[0][2], srcs[1][2])))
    for f, t, hh in srcs:
        ctx.assume(sym_not(eq(hh, bytes(32))))     # no transaction hashes to the all-zero (null) id
    db = SymDict()
    for f, t, hh in srcs:
        db[hh] = t
    txs_in = []
    unspents = []
    bad = ctx.choose("discrepancy_at_input", list(range(len(layout)))) if what != "none" else None
    for i, (s, o) in enumerate(layout):
        f, t, hh = srcs[s]
        txs_in.append(Tx.TxIn(hh, o, b""))
        val = f["outs"][o]["value"]
        scr = f["outs"][o]["script"]
        if i == bad and what == "value":
            val = ctx.sym_int("recorded_value", 0, MAX)
            ctx.assume(val != f["outs"][o]["value"])
        if i == bad and what == "script":
            scr = ctx.sym_bytes("recorded_script", 2)
            ctx.assume(sym_not(eq(scr, f["outs"][o]["script"])))
        unspents.append(Tx.TxOut(val, scr))
    tx = Tx(1, txs_in, [Tx.TxOut(1, b"\x51")])
    tx.set_unspents(unspents)
    try:
        fee = tx.validate_unspents(_Db(db))
        returned = True
    except Exception:
        returned = False
    if what == "none":
        ctx.check(returned, "matching-records-are-accepted")
        if returned:
            ctx.check(fee == tx.total_in() - tx.total_out(), "returns-the-fee")
    else:
        ctx.check(not returned, "never-returns-normally-on-a-discrepancy")


def obligations(tier):
    T = tier == "thorough"
    obs = []
    for n in range(1, 6 if not T else 9):
        obs.append(Ob("C13.split.%d" % n, split, "every total in [0, 2^64), %d parts" % n, dict(n=n), expect=["parts-sum-to-total"], uniform=96))
    shapes = [(1, ("pool",)), (1, ("pool", "pool")), (2, ("fixed", "pool")), (2, ("pool", "fixed", "pool")), (2, ("pool", "pool", "pool")), (1, ("fixed",)), (3, ("fixed", "pool", "pool", "fixed"))]
    if T:
        shapes += [(3, ("pool", "pool", "pool", "pool")), (2, ("fixed", "fixed", "pool")), (1, ("pool", "fixed", "fixed", "pool"))]
    for n_in, kinds in shapes:
        nm = "%din.%s" % (n_in, "-".join(kinds))
        obs.append(Ob("C13.distribute." + nm, distribute, "%d spendables (1..21e14 each), outputs %s, any fee >= 0" % (n_in, kinds), dict(n_in=n_in, kinds=kinds), weight=2, uniform=96))
    for n_in, kinds in shapes[:5] if not T else shapes:
        nm = "%din.%s" % (n_in, "-".join(kinds))
        obs.append(Ob("C13.create_tx." + nm, create, "network.tx_utils.create_tx with %d spendables and payables %s" % (n_in, kinds), dict(n_in=n_in, kinds=kinds),
                      expect=["inputs-paired-with-their-spendables"], weight=3, uniform=96))
    layouts = {"1in": [(0, 0)], "2in-2src": [(0, 1), (1, 0)], "2in-same-src": [(0, 0), (0, 1)]}
    if T:
        layouts["3in"] = [(0, 0), (1, 1), (0, 1)]
    for nm, lay in layouts.items():
        for what in ("none", "value", "script"):
            obs.append(Ob("C13.validate_unspents.%s.%s" % (nm, what), validate, "inputs %s (source tx, output index); recorded %s differs" % (lay, what),
                          dict(layout=lay, what=what), weight=3, collision_free=True))
    return obs
