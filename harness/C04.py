"""C04 - signature hashes equal the consensus definition for every hash type."""
from symx.api import Ob, imp, B, items_of, eq, cat, le, from_be, sym_and, sym_or, sym_not, ite
from refs import wire, sighash as ref
from harness.common import sym_tx_fields, build_tx

META = dict(
    level_text="Bounded symbolic equivalence checking of the real _signature_hash / _segwit_signature_preimage / fork-id and Groestlcoin overrides / "
               "delete_subscript code against transcriptions of Bitcoin Core's SignatureHash, FindAndDelete and the BIP143 algorithm. SHA-256 is an "
               "uninterpreted function, so digests are equal for every interpretation of the hash exactly when the preimage bytes are equal; every "
               "32/64-bit field, hash, amount and the full 32-bit hash type are symbolic for each enumerated transaction shape and input index.",
    level_note="Trusted: z3, symx, refs/sighash.py + refs/wire.py. Shapes <= 3 inputs x 3 outputs; script code bytes drawn from an opcode alphabet "
               "(code separator, pushes, PUSHDATA, plain opcodes) of <= 4 bytes.",
    stubs=["hashlib.sha256 = uninterpreted function per input length"],
    assumptions=["script-code bytes range over the alphabet {00,01,02,4c,51,ab,ac,ff} (all instruction classes the sighash code distinguishes)"],
    outside=["more than 3 inputs/outputs", "script codes longer than 4 bytes (5 thorough)"],
)

ALPHA = [0x00, 0x01, 0x02, 0x4C, 0x51, 0xAB, 0xAC, 0xFF]


def _H(ctx, single=False):
    if ctx.symbolic:
        from symx.shims import hashlib_shim as h
    else:
        import hashlib as h
    if single:
        return lambda b: h.sha256(b).digest()
    return lambda b: h.sha256(h.sha256(b).digest()).digest()


def _alpha_bytes(ctx, name, n, alphabet=ALPHA, split=True):
    """n bytes over an alphabet.  split=True: the solver enumerates the feasible values of each byte
    (one multi-way decision per byte), so the code under test then sees concrete opcodes."""
    b = ctx.sym_bytes(name, n)
    for it in items_of(b):
        ctx.assume(sym_or(*[it == a for a in alphabet]))
    if split and n:
        return B([ctx.concretize(it) for it in items_of(b)])
    return b


def _tx_cls(coin):
    mod = {"btc": "pycoin.coins.bitcoin.Tx", "bch": "pycoin.coins.bcash.Tx", "btg": "pycoin.coins.bgold.Tx", "grs": "pycoin.coins.groestlcoin.Tx"}[coin]
    return imp(mod).Tx


def _shape(n_in, n_out):
    return dict(ins=[dict(script=2)] * n_in, outs=[dict(script=2)] * n_out)


def legacy(ctx, n_in, n_out, idx, code_len, coin="btc"):
    Tx = _tx_cls(coin)
    f = sym_tx_fields(ctx, _shape(n_in, n_out))
    tx = build_tx(Tx, f)
    code = _alpha_bytes(ctx, "script_code", code_len)
    lst, bad_at = ref.ops(code)
    ctx.known_class("F20-script-code-with-truncated-push", bad_at is not None)
    hash_type = ctx.sym_int("hash_type", 0, 0xFFFFFFFF)
    before = tx.as_bin()
    sc = Tx.SolutionChecker(tx)
    got = sc._signature_hash(code, idx, hash_type)
    kind, pre = ref.legacy_preimage(f, idx, code, hash_type)
    if kind == "one":
        ctx.check(got == (1 << 248), "sighash-single-out-of-range-is-one")
    else:
        H = _H(ctx, single=(coin == "grs"))
        ctx.check(got == from_be(H(pre)), "legacy-digest-equals-consensus")
    ctx.check(eq(tx.as_bin(), before), "computing-sighash-does-not-modify-tx")


def bip143(ctx, n_in, n_out, idx, code_len, coin="btc"):
    Tx = _tx_cls(coin)
    ScriptError = imp("pycoin.coins.SolutionChecker").ScriptError
    f = sym_tx_fields(ctx, _shape(n_in, n_out))
    tx = build_tx(Tx, f)
    amounts = [ctx.sym_int("amount%d" % k, 0, (1 << 64) - 1) for k in range(n_in)]
    tx.set_unspents([Tx.TxOut(a, b"\x51") for a in amounts])
    code = ctx.sym_bytes("script_code", code_len)
    hash_type = ctx.sym_int("hash_type", 0, 0xFFFFFFFF if coin in ("btc", "grs") else 0xFF)
    before = tx.as_bin()
    sc = Tx.SolutionChecker(tx)
    H = _H(ctx, single=(coin == "grs"))
    if coin in ("btc", "grs"):
        got = sc._signature_for_hash_type_segwit(code, idx, hash_type)
        want = from_be(H(ref.bip143_preimage(f, idx, code, amounts[idx], hash_type, H)))
        ctx.check(got == want, "bip143-digest-equals-spec")
    else:
        forkid = {"bch": 0, "btg": 79}[coin]
        try:
            got = sc._signature_hash(code, idx, hash_type)
            raised = False
        except ScriptError:
            raised = True
        ctx.check(eq(raised, (hash_type & 0x40) == 0), "refuses-exactly-hash-types-without-forkid-bit")
        if not raised:
            ht = hash_type | (forkid << 8)
            want = from_be(H(ref.bip143_preimage(f, idx, code, amounts[idx], ht, H)))
            ctx.check(got == want, "forkid-digest-is-bip143-with-forkid-folded-in")
    ctx.check(eq(tx.as_bin(), before), "computing-sighash-does-not-modify-tx")


def reuse(ctx, n_in, n_out, idx1, idx2, coin="btc", mode="bip143"):
    """one SolutionChecker object answers two queries: the second answer must not depend on the first"""
    Tx = _tx_cls(coin)
    f = sym_tx_fields(ctx, _shape(n_in, n_out))
    tx = build_tx(Tx, f)
    amounts = [ctx.sym_int("amount%d" % k, 0, (1 << 64) - 1) for k in range(n_in)]
    tx.set_unspents([Tx.TxOut(a, b"\x51") for a in amounts])
    code1 = ctx.sym_bytes("script_code1", 2)
    code2 = ctx.sym_bytes("script_code2", 2)
    lo = 0x40 if coin in ("bch", "btg") else 0
    ht1 = ctx.sym_int("hash_type1", 0, 0xFF)
    ht2 = ctx.sym_int("hash_type2", 0, 0xFF)
    if lo:
        ctx.assume((ht1 & 0x40) != 0)
        ctx.assume((ht2 & 0x40) != 0)
    sc = Tx.SolutionChecker(tx)
    H = _H(ctx, single=(coin == "grs"))
    fold = {"bch": 0, "btg": 79 << 8}.get(coin, 0)
    if mode == "bip143":
        sc._signature_for_hash_type_segwit(code1, idx1, ht1)
        got = sc._signature_for_hash_type_segwit(code2, idx2, ht2)
        want = from_be(H(ref.bip143_preimage(f, idx2, code2, amounts[idx2], ht2 | fold, H)))
        ctx.check(got == want, "second-bip143-query-on-same-checker-equals-spec")
    else:
        c1 = b"\x51"
        c2 = b"\xac"
        sc._signature_hash(c1, idx1, ht1)
        got = sc._signature_hash(c2, idx2, ht2)
        kind, pre = ref.legacy_preimage(f, idx2, c2, ht2)
        if kind == "one":
            ctx.check(got == (1 << 248), "second-legacy-query-single-out-of-range-is-one")
        else:
            ctx.check(got == from_be(H(pre)), "second-legacy-query-on-same-checker-equals-consensus")


def find_and_delete(ctx, script_len, sig_len):
    Tx = _tx_cls("btc")
    SC = Tx.SolutionChecker
    script = _alpha_bytes(ctx, "script", script_len, ALPHA + [0x03])
    sig = _alpha_bytes(ctx, "sig", sig_len, [0x00, 0x01, 0x05, 0x30, 0x81, 0xAB])
    if sig_len == 1:
        s0 = items_of(sig)[0]
        ctx.known_class("F19-one-byte-signature-deleted-as-OP_N", sym_or(sym_and(s0 >= 1, s0 <= 16), s0 == 0x81))
    lst, bad_at = ref.ops(script)
    ctx.known_class("F20-script-code-with-truncated-push", bad_at is not None)
    # the code-separator deletion used by _signature_hash
    got = SC.delete_subscript(script, bytes([0xAB]))
    ctx.check(eq(got, ref.serialize_script_code(script)), "codeseparator-removal-equals-SerializeScriptCode")
    sc = SC(build_tx(Tx, dict(version=1, lock_time=0, ins=[], outs=[])))
    # removal of the signature being checked
    got2 = sc._delete_signature(script, sig)
    want2 = ref.find_and_delete(script, ref.push_of(sig))
    ctx.check(eq(got2, want2), "signature-removal-equals-FindAndDelete")


def tx_hash_with_type(ctx, n_in, n_out):
    Tx = _tx_cls("btc")
    f = sym_tx_fields(ctx, _shape(n_in, n_out))
    tx = build_tx(Tx, f)
    ht = ctx.sym_int("hash_type", 0, 0xFFFFFFFF)
    H = _H(ctx)
    ctx.check(eq(tx.hash(hash_type=ht), H(cat(wire.ser_tx(f, with_witness=False), le(ht, 4)))), "hash-with-type-appends-4-byte-le")


def obligations(tier):
    T = tier == "thorough"
    obs = []
    shapes = [(1, 1), (1, 0), (2, 1), (2, 2), (3, 2), (2, 3)] + ([(3, 3), (1, 3), (3, 1), (3, 0)] if T else [])
    for n_in, n_out in shapes:
        for idx in range(n_in):
            for cl in ((0, 2) if not T else (0, 1, 2, 3, 4)):
                obs.append(Ob("C04.legacy.%din-%dout.idx%d.code%d" % (n_in, n_out, idx, cl), legacy,
                              "%d inputs x %d outputs, input %d, %d-byte script code over the opcode alphabet, all 2^32 hash types" % (n_in, n_out, idx, cl),
                              dict(n_in=n_in, n_out=n_out, idx=idx, code_len=cl), weight=2 + cl, max_paths=50000))
            obs.append(Ob("C04.bip143.%din-%dout.idx%d" % (n_in, n_out, idx), bip143,
                          "%d inputs x %d outputs, input %d, 3-byte arbitrary script code, 64-bit amount, all 2^32 hash types" % (n_in, n_out, idx),
                          dict(n_in=n_in, n_out=n_out, idx=idx, code_len=3), expect=["bip143-digest-equals-spec"]))
    for coin in ("bch", "btg", "grs"):
        for n_in, n_out in ([(1, 1), (2, 2), (2, 1)] if not T else shapes):
            for idx in range(n_in):
                obs.append(Ob("C04.%s.bip143.%din-%dout.idx%d" % (coin, n_in, n_out, idx), bip143, "%s transaction class; all 256 hash-type bytes%s" % (
                    coin.upper(), "" if coin != "grs" else " (32-bit); single SHA256"), dict(n_in=n_in, n_out=n_out, idx=idx, code_len=2, coin=coin)))
    obs.append(Ob("C04.grs.legacy.2in-2out.idx1", legacy, "Groestlcoin legacy digest (single SHA256)", dict(n_in=2, n_out=2, idx=1, code_len=2, coin="grs")))
    for sl in ((1, 2, 3) if not T else (1, 2, 3, 4, 5)):
        for gl in (0, 1, 2):
            if gl == 2 and sl >= 3 and not T:
                continue
            obs.append(Ob("C04.find-and-delete.script%d.sig%d" % (sl, gl), find_and_delete, "scripts of %d bytes and signature blobs of %d bytes over the opcode alphabet" % (sl, gl),
                          dict(script_len=sl, sig_len=gl), weight=sl * 2, max_paths=100000, deadline_s=400))
    for coin in (("btc", "bch") if not T else ("btc", "bch", "btg", "grs")):
        for n_in, n_out in ([(2, 2), (2, 1)] if not T else [(2, 2), (2, 1), (3, 2), (3, 3)]):
            for i1 in range(n_in):
                for i2 in range(n_in):
                    obs.append(Ob("C04.reuse.%s.%din-%dout.idx%d-then-idx%d" % (coin, n_in, n_out, i1, i2), reuse,
                                  "%s: one checker object, query input %d then input %d; both hash-type bytes symbolic" % (coin.upper(), i1, i2),
                                  dict(n_in=n_in, n_out=n_out, idx1=i1, idx2=i2, coin=coin), expect=["second-bip143-query-on-same-checker-equals-spec"], weight=3))
                    if coin == "btc":
                        obs.append(Ob("C04.reuse-legacy.%din-%dout.idx%d-then-idx%d" % (n_in, n_out, i1, i2), reuse,
                                      "one checker object, legacy digest of input %d then input %d; both hash-type bytes symbolic" % (i1, i2),
                                      dict(n_in=n_in, n_out=n_out, idx1=i1, idx2=i2, coin=coin, mode="legacy"), weight=3))
    obs.append(Ob("C04.tx-hash-with-type", tx_hash_with_type, "2 inputs x 2 outputs, any 32-bit hash type", dict(n_in=2, n_out=2)))
    return obs
