"""C02 - elliptic-curve arithmetic is the group law (pure-Python implementation, toy curves + structural checks)."""
from symx.api import Ob, imp, eq, sym_and, sym_or, sym_not, ite, truth
from harness import toy

META = dict(
    level_text="Bounded symbolic checking of the real Curve.add / multiply / inverse_mod, Point negation/subtraction, Generator.raw_mul / blinded multiply / "
               "points_for_x on toy curves of prime order (both regimes n < p and n > p): points are table entries at symbolic exponents, scalars, blinding "
               "factors and coordinate offsets (unreduced x + jp) are symbolic, and every result is compared with the isomorphic arithmetic in Z_n - which "
               "entails closure, commutativity, associativity, identity, inverses and k*P = P+...+P on those curves.",
    level_note="Trusted: z3, symx, the plain-integer reference refs/ec_ref.py used only to tabulate k*G for the toy curves (validated against secp256k1 test "
               "vectors through the script-vector validation). Production-size fields are NOT executed symbolically (256-bit symbolic multiplication is "
               "out of reach); native OpenSSL / libsecp256k1 back ends are C code and are not decided.",
    stubs=["os.urandom (blinding factor) = symbolic value"], assumptions=[],
    outside=["secp256k1 / secp256r1 / BLS12-381 field sizes", "native back ends (FFI)", "toy primes above 23 (quick) / 43 (thorough)"],
)


def _mk(ctx, c):
    Gen = imp("pycoin.ecdsa.Generator").Generator
    import os
    g = Gen(c["p"], c["a"], c["b"], c["G"], c["n"])
    return g


def _pt(ctx, g, c, name, allow_inf=True, offsets=True):
    """point e*G for a solver-enumerated exponent e, optionally with unreduced coordinates (x + jp, y + kp); returns (Point, exponent)"""
    e = ctx.concretize(ctx.sym_int(name, 0 if allow_inf else 1, c["n"] - 1))
    if e == 0:
        return g.infinity(), 0
    x, y = c["table"][e]
    if offsets:
        jx, jy = ctx.choose(name + ".offsets", [(0, 0), (1, 0), (0, -1), (-1, 1)])
        x = x + jx * c["p"]
        y = y + jy * c["p"]
    return g.Point(x, y), e


def _is(c, pt, e):
    if pt[0] is None:
        return e == 0
    p = c["p"]
    return toy.is_table_point(c, (pt[0] % p, pt[1] % p), e)


def add_law(ctx, ci):
    c = toy.curves(ctx_tier(ctx))[ci]
    g = _mk(ctx, c)
    P, e1 = _pt(ctx, g, c, "e1")
    Q, e2 = _pt(ctx, g, c, "e2")
    R = P + Q
    ctx.check(_is(c, R, (e1 + e2) % c["n"]), "sum-is-the-group-sum")
    if R[0] is not None:
        ctx.check(g.contains_point(R[0], R[1]), "result-on-curve")
    S = Q + P
    ctx.check(eq(S[0], R[0]) if R[0] is not None else S[0] is None, "commutative")
    N = -P
    ctx.check(_is(c, N, (c["n"] - e1) % c["n"]), "negation")
    D = P - Q
    ctx.check(_is(c, D, (e1 - e2) % c["n"]), "subtraction")


def ctx_tier(ctx):
    import os
    return os.environ.get("VERIF_TIER", "quick")


def mul_law(ctx, ci):
    c = toy.curves(ctx_tier(ctx))[ci]
    g = _mk(ctx, c)
    n = c["n"]
    e = ctx.concretize(ctx.sym_int("e", 0, n - 1))     # the point: solver-enumerated; the scalar stays symbolic
    P = g.infinity() if e == 0 else g.Point(*c["table"][e])
    k = ctx.sym_int("k", -2 * n - 1, 2 * n + 1)
    try:
        R = k * P
        O = n * P
        R2 = g.multiply(P, k)
    except Exception as ex:
        ctx.note("scalar multiplication raised %r" % (ex,))
        ctx.check(False, "scalar-multiplication-returns-a-point")
    ctx.check(_is(c, R, (k * e) % n), "scalar-multiple-is-repeated-addition")
    ctx.check(O[0] is None, "order-times-point-is-infinity")
    ctx.check(eq(R2[0], R[0]) if R[0] is not None else R2[0] is None, "multiply-method-agrees")


def gen_mul(ctx, ci):
    c = toy.curves(ctx_tier(ctx))[ci]
    g = _mk(ctx, c)
    n = c["n"]
    bf = ctx.sym_int("blinding_factor", 0, n - 1)
    g._blinding_factor = bf
    g._minus_blinding_factor_g = g.raw_mul(-bf)
    k = ctx.sym_int("k", -n - 1, 2 * n + 1)
    R = g * k
    ctx.check(_is(c, R, k % n), "blinded-fixed-base-multiply-equals-k-times-G")
    R2 = g.raw_mul(k)
    ctx.check(_is(c, R2, k % n), "raw_mul-equals-k-times-G")
    R3 = k * g
    ctx.check(_is(c, R3, k % n), "rmul-equals-k-times-G")


def inverse_mod(ctx, m):
    Curve = imp("pycoin.ecdsa.Curve").Curve
    cv = Curve(m, 0, 7)
    a = ctx.sym_int("a", -2 * m, 3 * m)
    ctx.assume(a % m != 0)
    b = cv.inverse_mod(a, m)
    ctx.check(sym_and(b >= 1, b < m), "inverse-in-range")
    ctx.check((a * b) % m == 1, "inverse-times-a-is-one")


def points_for_x(ctx, ci):
    c = toy.curves(ctx_tier(ctx))[ci]
    g = _mk(ctx, c)
    p = c["p"]
    x = ctx.sym_int("x", 0, p - 1)
    on = [pt for pt in c["table"][1:]]
    exists = sym_or(*[x == pt[0] for pt in on])
    try:
        p0, p1 = g.points_for_x(x)
        got = True
    except ValueError:
        got = False
    if not got:
        # x with y = 0 cannot occur in a prime-order group, so 'no point' is the only reason
        ctx.check(sym_not(exists), "reports-none-only-when-no-point-has-this-x")
        return
    ctx.check(exists, "returns-points-only-when-they-exist")
    ctx.check(sym_and(p0[0] == x, p1[0] == x), "same-x")
    ctx.check(sym_and((p0[1] & 1) == 0, (p1[1] & 1) == 1), "even-y-first")
    ctx.check(sym_and(g.contains_point(p0[0], p0[1]), g.contains_point(p1[0], p1[1]), p0[1] + p1[1] == p, p0[1] < p, p1[1] < p), "both-points-on-curve-and-negatives")


def obligations(tier):
    import os
    os.environ.setdefault("VERIF_TIER", tier)
    cs = toy.curves(tier)
    obs = []
    for i, c in enumerate(cs):
        nm = "p%d.a%d.b%d.n%d" % (c["p"], c["a"], c["b"], c["n"])
        obs.append(Ob("C02.add." + nm, add_law, "curve %s: all pairs of points incl. infinity, P=Q, P=-Q, coordinates offset by -p/0/+p" % nm, dict(ci=i), weight=5, max_paths=200000, deadline_s=1200))
        obs.append(Ob("C02.multiply." + nm, mul_law, "curve %s: every point, every scalar in [-2n-1, 2n+1]" % nm, dict(ci=i), weight=5, max_paths=200000, deadline_s=1200))
        obs.append(Ob("C02.generator." + nm, gen_mul, "curve %s: every scalar and every blinding factor" % nm, dict(ci=i), weight=5, max_paths=200000, deadline_s=1200))
        obs.append(Ob("C02.points_for_x." + nm, points_for_x, "curve %s: every x in [0, p)" % nm, dict(ci=i)))
    for m in ((7, 11, 31) if tier != "thorough" else (7, 11, 13, 31, 43, 127)):
        obs.append(Ob("C02.inverse_mod.m%d" % m, inverse_mod, "modulus %d, every a in [-2m, 3m] coprime to m" % m, dict(m=m), weight=2))
    return obs
