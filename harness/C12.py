"""C12 - script integers, data pushes and script text encode canonically and losslessly."""
from symx.api import Ob, imp, B, items_of, ite, sym_and, sym_or, sym_not, eq, cat, le
from refs import script_num as ref

META = dict(
    level_text="Bounded symbolic model checking of the real IntStreamer / ScriptStreamer / ScriptTools code: every integer below the stated "
               "magnitude, every byte string up to the stated length and every script of the stated shapes is covered by a solver verdict per "
               "path, against a transcription of Bitcoin Core's CScriptNum, GetScriptOp and CheckMinimalPush. Bounded, not a proof.",
    level_note="Trusted: z3, the symx proxy semantics (self-tested against CPython, passing paths replayed on the uninstrumented code), the "
               "reference transcriptions in refs/. Outside the bound: larger integers, longer scripts in the text round trip.",
    stubs=[],
    assumptions=["reference = Bitcoin Core CScriptNum::serialize / fRequireMinimal / set_vch and CheckMinimalPush, transcribed in refs/script_num.py and refs/script_decode.py"],
    outside=["integers with |v| >= 2^71 (quick) / 2^135 (thorough)", "text round trip of scripts longer than 2 instructions (quick) / 3 (thorough)",
             "push payloads whose bytes beyond the first two are concrete filler for lengths > 80 (only the length selects the opcode)"],
)


def int_roundtrip(ctx, bits):
    IS = imp("pycoin.satoshi.IntStreamer").IntStreamer
    v = ctx.sym_int("v", -(1 << bits) + 1, (1 << bits) - 1)
    b = IS.int_to_script_bytes(v)
    ctx.check(eq(b, ref.serialize(v)), "encode-is-core-serialize")
    ctx.check(ref.is_minimal(b), "encode-is-minimal")
    ctx.check(IS.int_from_script_bytes(b, require_minimal=True) == v, "decode-encode-strict")
    ctx.check(IS.int_from_script_bytes(b) == v, "decode-encode-lax")


def bytes_decode(ctx, n):
    IS = imp("pycoin.satoshi.IntStreamer").IntStreamer
    ScriptError = imp("pycoin.coins.SolutionChecker").ScriptError
    b = ctx.sym_bytes("b", n)
    want_min = ref.is_minimal(b)
    want_v = ref.set_vch(b)
    lax = IS.int_from_script_bytes(b)
    ctx.check(lax == want_v, "lax-decode-is-set_vch")
    try:
        v = IS.int_from_script_bytes(b, require_minimal=True)
        accepted = True
    except ScriptError:
        accepted = False
    ctx.check(eq(accepted, want_min) if not isinstance(want_min, bool) else accepted == want_min, "strict-accepts-iff-minimal")
    if accepted:
        ctx.check(v == want_v, "strict-decode-is-set_vch")
        ctx.check(eq(IS.int_to_script_bytes(v), b), "minimal-form-reencodes-to-itself")


def _ref_push(data):
    """shortest push per Core's CScript::operator<<(vector) / CheckMinimalPush"""
    n = len(data)
    it = items_of(data)
    if n == 0:
        return B([0x00])
    if n == 1:
        x = it[0]
        # OP_1..OP_16 for 1..16, OP_1NEGATE for 0x81, else direct push
        return None  # handled by caller (value-dependent)
    if n <= 75:
        return cat(B([n]), data)
    if n <= 255:
        return cat(B([76, n]), data)
    if n <= 65535:
        return cat(B([77]), le(n, 2), data)
    return cat(B([78]), le(n, 4), data)


def push(ctx, n):
    ss = imp("pycoin.coins.bitcoin.ScriptStreamer").BitcoinScriptStreamer
    k = min(n, 2)
    head = ctx.sym_bytes("head", k)
    tail = bytes((i * 7 + 3) & 0xFF for i in range(n - k))
    data = cat(head, tail) if n else b""
    enc = ss.compile_push_data(data)
    if n == 1:
        x = items_of(data)[0]
        is_small = sym_and(x >= 1, x <= 16)
        is_neg1 = x == 0x81
        want_len = ite(sym_or(is_small, is_neg1), 1, 2)
        ctx.check(len(enc) == want_len, "shortest-opcode-length")
        if len(enc) == 1:
            e0 = items_of(enc)[0]
            ctx.check(sym_or(sym_and(is_small, e0 == 0x50 + x), sym_and(is_neg1, e0 == 0x4F)), "op_n-for-small-ints")
        else:
            ctx.check(eq(enc, cat(B([1]), data)), "direct-push-1")
    else:
        ctx.check(eq(enc, _ref_push(data)), "shortest-push-encoding")
    # the decoder reads the same data back and the minimal-push rule accepts it
    ScriptError = imp("pycoin.coins.SolutionChecker").ScriptError
    try:
        opcode, got, pc, is_ok = ss.get_opcode(enc, 0, verify_minimal_data=True)
    except ScriptError as e:
        ctx.note("get_opcode(verify_minimal_data=True) raised %r on the shortest push of %d bytes" % (e, n))
        ctx.check(False, "minimal-push-rule-accepts-shortest-push")
    ctx.check(is_ok, "decoder-accepts")
    ctx.check(pc == len(enc), "decoder-consumes-all")
    ctx.check(eq(got, data), "decoder-returns-same-data")


def truncated(ctx, n):
    from refs import script_decode as rd
    ss = imp("pycoin.coins.bitcoin.ScriptStreamer").BitcoinScriptStreamer
    ScriptError = imp("pycoin.coins.SolutionChecker").ScriptError
    script = ctx.sym_bytes("script", n)
    want = rd.get_op(script, 0)   # (ok, opcode, data, new_pc)
    opcode, data, pc, is_ok = ss.get_opcode(script, 0, verify_minimal_data=False)
    ctx.check(eq(bool(is_ok), want[0]), "malformed-verdict-agrees")
    if is_ok:
        ctx.check(opcode == want[1], "opcode-agrees")
        ctx.check(pc == want[3], "pc-agrees")
        if want[2] is None:
            ctx.check(data is None, "no-data-for-non-push")
        else:
            ctx.check(data is not None and eq(data, want[2]), "data-agrees")
        # minimal-push verdict
        try:
            ss.get_opcode(script, 0, verify_minimal_data=True)
            acc = True
        except ScriptError:
            acc = False
        ctx.check(eq(acc, rd.check_minimal_push(want[2], want[1])) if want[2] is not None else acc, "minimal-push-verdict-agrees")


def text_roundtrip(ctx, shape, first_mod=None):
    """shape: tuple of instruction kinds: 'op' (any non-push opcode byte) or ('push', n) (minimal push of n bytes)"""
    tools = imp("pycoin.coins.bitcoin.ScriptTools").BitcoinScriptTools
    ss = imp("pycoin.coins.bitcoin.ScriptStreamer").BitcoinScriptStreamer
    parts = []
    for i, kind in enumerate(shape):
        if kind == "op":
            o = ctx.sym_int("op%d" % i, 0, 255)
            # known opcodes that are not data pushes with payload
            ctx.assume(sym_or(o == 0, o >= 79))
            names = tools.int_to_opcode
            if i == 0 and first_mod is not None:
                ctx.assume(o % 16 == first_mod)
            o = ctx.concretize(o)
            ctx.assume(o in names)
            parts.append(B([o]))
        else:
            n = kind[1]
            d = ctx.sym_bytes("d%d" % i, n)
            enc = ss.compile_push_data(d)
            # only pushes that disassemble as data ("OP_PUSH_n"/PUSHDATA) are hex-bracketed text
            parts.append(enc)
    script = cat(*parts)
    text = tools.disassemble(script)
    back = tools.compile(text)
    ctx.check(eq(back, script), "compile-disassemble-identity")


def obligations(tier):
    T = tier == "thorough"
    obs = []
    bits = 135 if T else 71
    obs.append(Ob("C12.int-bijection", int_roundtrip, "all integers |v| < 2^%d, symbolic" % bits, dict(bits=bits),
                  expect=["encode-is-core-serialize", "decode-encode-strict"]))
    for n in range(0, (13 if T else 10)):
        obs.append(Ob("C12.bytes-minimal.len%d" % n, bytes_decode, "every byte string of length %d" % n, dict(n=n),
                      expect=["strict-accepts-iff-minimal"]))
    lens = [0, 1, 2, 3, 74, 75, 76, 77, 254, 255, 256, 257, 65535, 65536, 65537, 70000]
    if T:
        lens += [16, 17, 100, 519, 520, 521, 1000, 65534, 100000]
    for n in lens:
        obs.append(Ob("C12.push.len%d" % n, push, "data of length %d (first two bytes symbolic, rest fixed filler)" % n, dict(n=n),
                      expect=["decoder-returns-same-data"]))
    for n in range(1, (8 if T else 7)):
        obs.append(Ob("C12.truncated.len%d" % n, truncated, "every script of %d bytes, first instruction" % n, dict(n=n),
                      expect=["malformed-verdict-agrees"], weight=3))
    shapes = [("op",), (("push", 1),), (("push", 2),), (("push", 3),), ("op", "op"), ("op", ("push", 2)), (("push", 2), "op"),
              (("push", 1), ("push", 3))]
    if T:
        shapes += [(("push", 75),), (("push", 76),), (("push", 2), "op", ("push", 1)), (("push", 4),), (("push", 20),)]
    for sh in shapes:
        nm = "+".join("op" if k == "op" else "push%d" % k[1] for k in sh)
        if sh[0] == "op" and sh.count("op") >= 2:
            if sh.count("op") == 3:
                continue  # three free opcodes: 2.7M paths - outside the bound
            for m in range(16):
                obs.append(Ob("C12.text-roundtrip.%s.first%%16=%d" % (nm, m), text_roundtrip,
                              "scripts of shape %s, first opcode = %d mod 16" % (nm, m), dict(shape=sh, first_mod=m),
                              expect=["compile-disassemble-identity"], weight=4, max_paths=20000))
            continue
        obs.append(Ob("C12.text-roundtrip." + nm, text_roundtrip, "scripts of shape %s: any known non-push opcode byte, any payload" % nm,
                      dict(shape=sh), expect=["compile-disassemble-identity"], weight=5, max_paths=20000))
    return obs
