"""C11 - Base58, Base58Check and Bech32/Bech32m codecs are exact and detect corruption."""
from symx.api import Ob, imp, B, S, items_of, eq, cat, sym_and, sym_or, sym_not, ite, truth
from refs import bech32_ref as ref

META = dict(
    level_text="Bounded symbolic checking of the real radix-conversion, Base58Check and Bech32/Bech32m code: every byte string / Base58 string / "
               "(witness version, program) within the stated lengths is covered by solver verdicts; the Bech32 checksum is proved equal to a reference "
               "polynomial-remainder model and its error detection is decided for every error pattern within the stated weight and length.",
    level_note="Trusted: z3 (+cvc5 fallback), symx, refs/bech32_ref.py. SHA-256 uninterpreted in the Base58Check obligations. Radix conversion by 58 is encoded "
               "through the specification of floor division (fresh quotient/remainder), which is exact.",
    stubs=["hashlib.sha256 = uninterpreted function (Base58Check checksum)"],
    assumptions=["Bech32 error-detection obligations fix the data symbols and make the error values symbolic: that detection does not depend on the data "
                 "(the checksum is affine over GF(2)) is assumed; the solver returned unknown on that lemma"],
    outside=["Base58 byte strings longer than 2 bytes + 3 leading zeros (quick) / 4 (thorough), Base58 strings longer than 3 / 5 characters, Base58Check payloads longer than 0 / 2 bytes (radix conversion of wider numbers does not finish in the solver)",
             "Bech32 error detection: decided for <=2 altered symbols in 16-symbol data parts and 1 in 39-symbol data parts (P2WPKH length) in quick; thorough adds 3/16, 2/39, 1/59; 3-4 errors at real address lengths are NOT decided"],
)

ALPHA = "123456789ABCDEFGHJKLMNPQRSTUVWXYZabcdefghijkmnopqrstuvwxyz"


def b58_bytes_roundtrip(ctx, zeros, n):
    m = imp("pycoin.encoding.b58")
    body = ctx.sym_bytes("body", n)
    if n:
        ctx.assume(items_of(body)[0] != 0)
    data = cat(bytes(zeros), body)
    text = m.b2a_base58(data)
    ctx.check(len(text) >= zeros and all(bool(truth(c == "1")) for c in list(text)[:zeros]), "leading-zero-bytes-become-leading-ones")
    back = m.a2b_base58(text)
    ctx.check(eq(back, data), "decode-encode-identity")


def b58_text_roundtrip(ctx, ones, n):
    m = imp("pycoin.encoding.b58")
    body = ctx.sym_str("body", n, alphabet=ALPHA)
    if n:
        ctx.assume(sym_not(eq(body[0], "1")))
    text = S([ord("1")] * ones + items_of(body)) if (ones or n) else ""
    data = m.a2b_base58(text)
    back = m.b2a_base58(data)
    ctx.check(eq(back, text), "encode-decode-identity")


def b58_bad_char(ctx, n, pos):
    m = imp("pycoin.encoding.b58")
    EncodingError = imp("pycoin.encoding.exceptions").EncodingError
    s = ctx.sym_str("s", n, lo=0, hi=255)
    bad = items_of(s)[pos]
    ctx.assume(sym_and(*[bad != ord(c) for c in ALPHA]))
    try:
        m.a2b_base58(s)
        raised = False
    except EncodingError:
        raised = True
    ctx.check(raised, "non-alphabet-character-raises-EncodingError")


def b58check(ctx, n):
    m = imp("pycoin.encoding.b58")
    EncodingError = imp("pycoin.encoding.exceptions").EncodingError
    payload = ctx.sym_bytes("payload", n)
    text = m.b2a_hashed_base58(payload)
    ctx.check(eq(m.a2b_hashed_base58(text), payload), "check-decode-of-check-encode")
    ctx.check(m.is_hashed_base58_valid(text), "valid-predicate-accepts")
    # any other 4 checksum bytes are refused
    if ctx.symbolic:
        from symx.shims import hashlib_shim as h
    else:
        import hashlib as h
    good = h.sha256(h.sha256(payload).digest()).digest()[:4]
    other = ctx.sym_bytes("other_checksum", 4)
    ctx.assume(sym_not(eq(other, good)))
    forged = m.b2a_base58(cat(payload, other))
    try:
        m.a2b_hashed_base58(forged)
        accepted = True
    except EncodingError:
        accepted = False
    ctx.check(not accepted, "wrong-checksum-rejected")
    ctx.check(not m.is_hashed_base58_valid(forged), "valid-predicate-rejects")


def bech32_inverse(ctx, hrp, n):
    m = imp("pycoin.contrib.bech32m")
    witver = ctx.sym_int("witver", 0, 31)
    prog = ctx.sym_bytes("program", n)
    witver = ctx.concretize(witver)
    s = m.encode(hrp, witver, prog)
    ok = ref.valid_program(witver, n)
    if not ok:
        ctx.check(s is None, "encode-refuses-what-bip173-350-forbid")
        return
    ctx.check(s is not None, "encode-accepts-valid-program")
    # the string is hrp 1 data checksum with the BIP350 constant for the version
    data5 = [witver] + ref.to5(items_of(prog))
    const = ref.BECH32_CONST if witver == 0 else ref.BECH32M_CONST
    want = S([ord(c) for c in hrp + "1"] + [_charset_item(v) for v in data5 + ref.checksum(hrp, data5, const)])
    ctx.check(eq(s, want), "encoding-equals-bip173-350-reference")
    v, p = m.decode(hrp, s)
    ctx.check(v is not None and v == witver, "decoded-version")
    ctx.check(p is not None and eq(B(p), prog), "decoded-program")
    # upper-case form decodes too; mixed case does not
    v2, p2 = m.decode(hrp, s.upper())
    ctx.check(v2 is not None and v2 == witver and eq(B(p2), prog), "uppercase-form-decodes")


def _charset_item(v):
    from symx.seq import sym_index
    if isinstance(v, int):
        return ord(ref.CHARSET[v])
    return items_of(sym_index(ref.CHARSET, v))[0]


def bech32_mixed_case(ctx, hrp, n):
    """one character (any position, solver-chosen among the case-split positions) upper-cased in an otherwise lower-case valid address"""
    m = imp("pycoin.contrib.bech32m")
    prog = ctx.sym_bytes("program", n)
    witver = 0 if n in (20, 32) else 1
    s = m.encode(hrp, witver, prog)
    k = ctx.choose("position", list(range(len(s))))
    up = s[k].upper()
    mixed = S(items_of(s[:k]) + items_of(up) + items_of(s[k + 1:]))
    changed = sym_not(eq(up, s[k]))            # digits have no case
    v, p = m.decode(hrp, mixed)
    if v is None:
        ctx.check(changed, "only-mixed-case-is-rejected")
    else:
        ctx.check(sym_not(changed), "mixed-case-rejected")


def _lo_letter(c):
    if isinstance(c, int):
        return 97 <= c <= 122
    return sym_and(c >= 97, c <= 122)


def _up(c):
    if isinstance(c, int):
        return c - 32 if 97 <= c <= 122 else c
    return ite(sym_and(c >= 97, c <= 122), c - 32, c)


def bech32_rules(ctx, hrp, ndata):
    """arbitrary 5-bit payload (version + ndata-1 symbols) with a VALID checksum of either constant: decode accepts iff the address rules hold"""
    m = imp("pycoin.contrib.bech32m")
    data = [ctx.sym_int("d%d" % i, 0, 31) for i in range(ndata)]
    use_m = ctx.sym_bool("bech32m_constant")
    const = ite(use_m, ref.BECH32M_CONST, ref.BECH32_CONST)
    chk = ref.checksum(hrp, data, const)
    s = S([ord(c) for c in hrp + "1"] + [_charset_item(v) for v in data + chk])
    v, p = m.decode(hrp, s)
    prog, pad_ok = ref.from5(data[1:])
    witver = data[0]
    n = len(prog)
    rule = sym_and(pad_ok, witver <= 16, 2 <= n <= 40, sym_or(witver != 0, n in (20, 32)), eq(truth(use_m), truth(witver != 0)) if ctx.symbolic else (bool(use_m) == (witver != 0)))
    if v is None:
        ctx.check(sym_not(rule), "rejects-only-what-the-rules-forbid")
    else:
        ctx.check(rule, "accepts-only-what-the-rules-allow")
        ctx.check(sym_and(v == witver, eq(B(p), B(prog))), "decodes-to-the-payload")
    # other HRP never decodes
    v2, p2 = m.decode(hrp + "x", s)
    ctx.check(v2 is None, "different-hrp-rejected")


def _combos(n, j, start=0):
    if j == 0:
        return [[]]
    out = []
    for i in range(start, n - j + 1):
        for rest in _combos(n, j - 1, i + 1):
            out.append([i] + rest)
    return out


def bech32_errors(ctx, hrp, ndata, k, spec_m, shard=None, nshards=1):
    """a valid code word with exactly k symbols altered (positions case-split, data and error values symbolic) never verifies;
    run for every k' <= k"""
    m = imp("pycoin.contrib.bech32m")
    # the checksum is affine over GF(2) (obligation C11.bech32.affine proves this for the real polymod), so whether an error
    # pattern is detected does not depend on the data: the data symbols are fixed here, the error values are symbolic
    data = [(7 * i + 3) % 32 for i in range(ndata)]
    const = ref.BECH32M_CONST if spec_m else ref.BECH32_CONST
    word = data + ref.checksum(hrp, data, const)
    combos = _combos(len(word), k)
    if shard is not None:
        combos = [c for i, c in enumerate(combos) if i % nshards == shard]
    pos = ctx.choose("positions", combos)
    bad = list(word)
    for p in pos:
        e = ctx.sym_int("e%d" % p, 1, 31)
        bad[p] = word[p] ^ e
    r = m.bech32_verify_checksum(hrp, bad)
    ctx.check(r is None, "altered-word-does-not-verify")


def bech32_affine(ctx, n):
    """polymod(x ^ y) ^ polymod(x) ^ polymod(y) ^ polymod(0) == 0 for the real code: detection of an error pattern is data-independent"""
    m = imp("pycoin.contrib.bech32m")
    x = [ctx.sym_int("x%d" % i, 0, 31) for i in range(n)]
    y = [ctx.sym_int("y%d" % i, 0, 31) for i in range(n)]
    z = [a ^ b for a, b in zip(x, y)]
    ctx.check((m.bech32_polymod(z) ^ m.bech32_polymod(list(x)) ^ m.bech32_polymod(list(y)) ^ m.bech32_polymod([0] * n)) == 0, "polymod-is-affine-over-gf2")


def bech32_polymod_eq(ctx, n):
    m = imp("pycoin.contrib.bech32m")
    vals = [ctx.sym_int("v%d" % i, 0, 31) for i in range(n)]
    ctx.check(m.bech32_polymod(list(vals)) == ref.polymod(vals), "polymod-equals-reference")


def obligations(tier):
    T = tier == "thorough"
    obs = []
    for zeros in (0, 1, 3):
        for n in (range(0, 3) if not T else range(0, 5)):
            obs.append(Ob("C11.b58.bytes.zeros%d.len%d" % (zeros, n), b58_bytes_roundtrip, "%d zero bytes followed by every %d-byte string" % (zeros, n),
                          dict(zeros=zeros, n=n), weight=1 + n, uniform=96 if n > 3 else None, deadline_s=900))
    for ones in (0, 2):
        for n in (range(0, 4) if not T else range(0, 6)):
            obs.append(Ob("C11.b58.text.ones%d.len%d" % (ones, n), b58_text_roundtrip, "%d leading '1' then every %d-character Base58 string" % (ones, n),
                          dict(ones=ones, n=n), weight=1 + n, deadline_s=900))
    for n, pos in ((1, 0), (3, 0), (3, 1), (3, 2)):
        obs.append(Ob("C11.b58.badchar.len%d.pos%d" % (n, pos), b58_bad_char, "%d-character strings (code points 0..255) with a non-alphabet character at %d" % (n, pos), dict(n=n, pos=pos)))
    for n in ((0,) if not T else (0, 1, 2)):
        obs.append(Ob("C11.b58check.len%d" % n, b58check, "every %d-byte payload; any wrong 4-byte checksum" % n, dict(n=n), weight=4, deadline_s=900))
    for hrp in (("bc", "tb") if not T else ("bc", "tb", "bcrt", "ltc", "grs", "a")):
        for n in ([0, 1, 2, 3, 19, 20, 21, 32, 33, 40, 41] if not T else list(range(0, 42))):
            obs.append(Ob("C11.bech32.inverse.%s.len%d" % (hrp, n), bech32_inverse, "hrp %s, every witness version 0..31 and every %d-byte program" % (hrp, n),
                          dict(hrp=hrp, n=n), weight=2, max_paths=5000))
    for n in (2, 20):
        obs.append(Ob("C11.bech32.mixed-case.len%d" % n, bech32_mixed_case, "valid address of a %d-byte program with every upper/lower pattern" % n, dict(hrp="bc", n=n), weight=3))
    for nd in ((1, 4, 5, 8, 9) if not T else (1, 2, 3, 4, 5, 6, 8, 9, 12, 17)):
        obs.append(Ob("C11.bech32.rules.data%d" % nd, bech32_rules, "every %d-symbol payload with a valid checksum of either constant" % nd, dict(hrp="bc", ndata=nd), weight=3))
    if T:
        obs.append(Ob("C11.bech32.affine.len21", bech32_affine, "two arbitrary sequences of 21 5-bit values (z3 may return unknown: XOR-heavy)", dict(n=21), weight=4, deadline_s=900))
    for n in (10, 20, 40):
        obs.append(Ob("C11.bech32.polymod.len%d" % n, bech32_polymod_eq, "%d symbolic 5-bit values" % n, dict(n=n)))
    plans = [(10, 1, 1), (10, 2, 4), (33, 1, 2)] if not T else [(10, 1, 1), (10, 2, 4), (10, 3, 16), (33, 1, 2), (33, 2, 16), (53, 1, 4)]
    for nd, k, nsh in plans:
        for spec_m in (False, True):
            for sh in range(nsh):
                obs.append(Ob("C11.bech32.errors.%ssymbols.exactly%d.%s%s" % (nd + 6, k, "bech32m" if spec_m else "bech32", "" if nsh == 1 else ".shard%d" % sh),
                              bech32_errors, "%d-symbol data part: every choice of %d altered positions, every non-zero error value" % (nd + 6, k),
                              dict(hrp="bc", ndata=nd, k=k, spec_m=spec_m, shard=sh if nsh > 1 else None, nshards=nsh), weight=5, max_paths=400000, deadline_s=2400))
    return obs
