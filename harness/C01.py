"""C01 - ECDSA: deterministic signatures verify for the signer and for nobody else (pure-Python configuration)."""
from symx.api import Ob, imp, B, items_of, eq, cat, be, from_be, sym_and, sym_or, sym_not, ite, truth
from harness import toy

N_K1 = 0xFFFFFFFFFFFFFFFFFFFFFFFFFFFFFFFEBAAEDCE6AF48A03BBFD25E8CD0364141
N_R1 = 0xFFFFFFFF00000000FFFFFFFFFFFFFFFFBCE6FAADA7179E84F3B9CAC2FC632551

META = dict(
    level_text="Bounded symbolic checking of the real RFC 6979 nonce derivation (secp256k1 / P-256 orders, key and hash fully symbolic 256-bit, HMAC-SHA256 "
               "uninterpreted, against a transcription of RFC 6979 section 3.2) and of the real Generator.sign / verify / recovery code on toy curves of "
               "prime order in both coordinate regimes (n < p, n > p): keys and nonces are solver-enumerated, hashes and candidate (r, s) - including "
               "out-of-range and malleated ones - are symbolic, and verdicts are compared with the ECDSA equation evaluated on exponents.",
    level_note="Trusted: z3, symx, refs/ec_ref.py (tabulates the toy groups). 256-bit curve arithmetic is not executed symbolically; OpenSSL / libsecp256k1 "
               "back ends are FFI code and are NOT decided (checks run with PYCOIN_NATIVE=none).",
    stubs=["hmac/hashlib = uninterpreted functions (RFC 6979 obligation)", "os.urandom (blinding) irrelevant: toy generators are built concretely"],
    assumptions=["RFC 6979 retry loop: the first candidate is in [1, n-1] (probability of a retry < 2^-127 on the production orders)"],
    outside=["toy orders above 17 (quick) / 31 (thorough)", "production-size curve arithmetic", "native back ends", "the low-S normalisation native back ends may apply"],
)


def _hmac(ctx, key, msg):
    if ctx.symbolic:
        from symx.shims import hashlib_shim as h
        return h.HMAC(key, msg, "sha256").digest()
    import hmac
    import hashlib
    return hmac.new(bytes(key), bytes(msg), hashlib.sha256).digest()


def rfc6979_ref(ctx, n, d, z):
    """RFC 6979 section 3.2 with HMAC-SHA256, qlen = bitlen(n) = 256: returns the first candidate k"""
    qlen = n.bit_length()
    rlen = (qlen + 7) // 8
    int2octets = lambda v: be(v, rlen)
    # bits2octets: z1 = bits2int(h1) (hlen == qlen: no shift), z2 = z1 mod q computed as one conditional subtraction
    z2 = ite(z >= n, z - n, z)
    V = b"\x01" * 32
    K = b"\x00" * 32
    K = _hmac(ctx, K, cat(V, b"\x00", int2octets(d), int2octets(z2)))
    V = _hmac(ctx, K, V)
    K = _hmac(ctx, K, cat(V, b"\x01", int2octets(d), int2octets(z2)))
    V = _hmac(ctx, K, V)
    V = _hmac(ctx, K, V)
    return from_be(V)          # tlen == qlen: T = V


def rfc6979(ctx, curve):
    m = imp("pycoin.ecdsa.rfc6979")
    n = N_K1 if curve == "secp256k1" else N_R1
    d = ctx.sym_int("d", 1, n - 1)
    z = ctx.sym_int("z", 0, (1 << 256) - 1)
    want = rfc6979_ref(ctx, n, d, z)
    ctx.assume(sym_and(want >= 1, want < n))
    got = m.deterministic_generate_k(n, d, z)
    ctx.check(got == want, "nonce-equals-rfc6979")


def _gen(c):
    Gen = imp("pycoin.ecdsa.Generator").Generator
    return Gen(c["p"], c["a"], c["b"], c["G"], c["n"])


def _inv_table(n, v):
    """v^-1 mod n for symbolic v in [1, n-1] (if-then-else over the concrete inverses)"""
    r = pow(n - 1, -1, n)
    for k in range(n - 2, 0, -1):
        r = ite(v == k, pow(k, -1, n), r)
    return r


def _x_of(c, e):
    """x-coordinate of e*G for symbolic e in [1, n-1]"""
    return toy.sym_point_coords(c, e)[0]


def _tier():
    import os
    return os.environ.get("VERIF_TIER", "quick")


def sign_verify(ctx, ci):
    c = toy.curves(_tier())[ci]
    g = _gen(c)
    n = c["n"]
    d = ctx.concretize(ctx.sym_int("d", 1, n - 1))
    k = ctx.concretize(ctx.sym_int("k", 1, n - 1))
    z = ctx.concretize(ctx.sym_int("z", 1, 2 * n))
    Q = d * g
    kx = c["table"][k][0]
    r_expected = kx % n
    s_expected = (pow(k, -1, n) * (z + d * r_expected)) % n
    # honest signing with this nonce (the nonce function is RFC 6979, checked separately); a zero r or s makes sign retry with k+1
    ctx.assume(sym_and(r_expected != 0, s_expected != 0))
    r, s, recid = g.sign_with_recid(d, z, gen_k=lambda order, se, val: k)
    ctx.check(sym_and(r >= 1, r < n, s >= 1, s < n), "signature-components-in-range")
    ctx.check(sym_and(r == r_expected, s == s_expected), "signature-is-the-ecdsa-signature-for-this-nonce")
    ctx.check(g.verify(Q, z, (r, s)), "own-signature-verifies")
    ctx.check(g.verify(Q, z, (r, n - s)) if bool(truth(n - s != 0)) else True, "malleated-s-also-verifies (n - s)")
    # recovery
    pairs = g.possible_public_pairs_for_signature(z, (r, s))
    for pr in pairs:
        ctx.check(g.verify(pr, z, (r, s)), "every-recovered-key-verifies")
    if kx < n:
        ctx.check(any(tuple(pr) == tuple(Q) for pr in pairs), "recovery-includes-the-signer")
    pr2 = g.possible_public_pairs_for_signature(z, (r, s), y_parity=recid)
    if kx < n:
        ctx.check(len(pr2) == 1 and tuple(pr2[0]) == tuple(Q), "recovery-id-selects-the-signer")


def verify_iff(ctx, ci, shard=0, nshards=1):
    c = toy.curves(_tier())[ci]
    g = _gen(c)
    n = c["n"]
    d = ctx.sym_int("d", 1, n - 1)
    ctx.assume(d % nshards == shard)
    d = ctx.concretize(d)
    Q = d * g
    zs = ctx.sym_int("z", 1, n + 1)
    if _tier() != "thorough" and n > 7:
        ctx.assume(sym_or(zs == 1, zs == 2, zs == n, zs == n + 1))
    z = ctx.concretize(zs)
    r = ctx.concretize(ctx.sym_int("r", -1, n + 1))
    s = ctx.concretize(ctx.sym_int("s", -1, n + 1))
    got = g.verify(Q, z, (r, s))
    in_range = sym_and(r >= 1, r < n, s >= 1, s < n)
    if not bool(truth(in_range)):
        return ctx.check(not got, "out-of-range-r-or-s-rejected")
    w = _inv_table(n, s)
    e = ((z % n) * w + r * w * d) % n
    if bool(truth(e == 0)):
        return ctx.check(not got, "point-at-infinity-rejected")
    want = (_x_of(c, e) % n) == r
    ctx.check(eq(got, truth(want)) if ctx.symbolic else bool(got) == bool(want), "verify-true-exactly-when-the-ecdsa-equation-holds")


def other_key_or_hash(ctx, ci):
    """a signature for (d, z) does not verify under another hash (mod n) unless the equation happens to hold - stated through verify_iff;
    here: the specific claim 'verifies for the signer' for every hash incl. z >= n and z multiple of n"""
    c = toy.curves(_tier())[ci]
    g = _gen(c)
    n = c["n"]
    d = ctx.concretize(ctx.sym_int("d", 1, n - 1))
    k = ctx.concretize(ctx.sym_int("k", 1, n - 1))
    z = ctx.concretize(ctx.sym_int("z", 1, n + 1))
    r0 = c["table"][k][0] % n
    s0 = (pow(k, -1, n) * (z + d * r0)) % n
    ctx.assume(sym_and(r0 != 0, s0 != 0))
    r, s = g.sign(d, z, gen_k=lambda order, se, val: k)
    ctx.check(g.verify(d * g, z, (r, s)), "verifies-for-the-signer")
    d2 = ctx.concretize(ctx.sym_int("other_d", 1, n - 1))
    if d2 != d:
        w = _inv_table(n, s)
        e = ((z % n) * w + r * w * d2) % n
        expect = False if bool(truth(e == 0)) else truth((_x_of(c, e) % n) == r)
        got = g.verify(d2 * g, z, (r, s))
        ctx.check(eq(got, expect) if ctx.symbolic else bool(got) == bool(expect), "other-key-verdict-follows-the-equation")


def key_der(ctx):
    """Key.sign / Key.verify are sign / verify composed with the DER codec (idealised generator)"""
    K = imp("pycoin.key.Key")
    der = imp("pycoin.satoshi.der")

    class G(object):
        def __init__(self):
            self.calls = []

        def order(self):
            return N_K1

        def sign(self, se, val):
            self.calls.append(("sign", se, val))
            return (r, s)

        def verify(self, pp, val, sig):
            self.calls.append(("verify", pp, val, sig))
            return True
    r = ctx.sym_int("r", 1 << 255, N_K1 - 1)
    s = ctx.sym_int("s", 1 << 248, (1 << 255) - 1)
    h = ctx.sym_bytes("hash", 32)
    gen = G()
    key = K.Key.__new__(K.Key)
    key._secret_exponent, key._public_pair, key._is_compressed = 5, (1, 2), True
    key.__dict__["_generator"] = gen
    sig = key.sign(h)
    val = from_be(h)
    ctx.check(gen.calls and gen.calls[0][0] == "sign" and bool(truth(gen.calls[0][2] == val)), "signs-the-big-endian-integer-of-the-hash")
    r2, s2 = der.sigdecode_der(sig)
    ctx.check(sym_and(r2 == r, sym_or(s2 == s, s2 == N_K1 - s)), "key-sign-emits-der-of-the-signature")
    ok = key.verify(h, sig)
    v = [cl for cl in gen.calls if cl[0] == "verify"]
    ctx.check(ok and v and bool(truth(sym_and(v[0][2] == val, v[0][3][0] == r2, v[0][3][1] == s2))), "key-verify-passes-hash-and-decoded-signature")


def obligations(tier):
    import os
    os.environ.setdefault("VERIF_TIER", tier)
    obs = [Ob("C01.rfc6979.secp256k1", rfc6979, "every key in [1, n-1] and every 256-bit hash; n = secp256k1 order", dict(curve="secp256k1"), expect=["nonce-equals-rfc6979"], weight=4),
           Ob("C01.rfc6979.secp256r1", rfc6979, "every key and hash; n = P-256 order", dict(curve="secp256r1"), expect=["nonce-equals-rfc6979"], weight=4)]
    for i, c in enumerate(toy.curves(tier)):
        nm = "p%d.n%d" % (c["p"], c["n"])
        if c["n"] > (17 if tier != "thorough" else 31) or (tier != "thorough" and (c["p"], c["n"]) not in ((11, 7), (11, 17), (19, 13))):
            continue
        obs.append(Ob("C01.sign-verify-recover." + nm, sign_verify, "toy curve %s (%s): every key, nonce and hash 1..2n (solver-enumerated)" % (nm, c["kind"]), dict(ci=i),
                      weight=6, max_paths=300000, deadline_s=1500))
        nsh = 1 if c["n"] <= 7 else 8
        for sh in range(nsh):
            obs.append(Ob("C01.verify-iff.%s%s" % (nm, "" if nsh == 1 else ".shard%d" % sh), verify_iff,
                          "toy curve %s: every key, hash 1..n+1, every candidate (r, s) in [-1, n+1]^2 (solver-enumerated)" % nm, dict(ci=i, shard=sh, nshards=nsh),
                          weight=8, max_paths=500000, deadline_s=1500))
        if tier == "thorough" or c["n"] <= 7:
          obs.append(Ob("C01.other-key." + nm, other_key_or_hash, "toy curve %s: signature of every (d, k, z) presented under every other key" % nm, dict(ci=i), weight=8,
                      max_paths=500000, deadline_s=1500))
    obs.append(Ob("C01.key-der", key_der, "Key.sign / Key.verify over an idealised generator: every 32-byte r, 31-byte s, every 32-byte hash", expect=["key-sign-emits-der-of-the-signature"]))
    return obs
