"""C16 - peer-to-peer messages round-trip through pack and parse for every message type."""
from symx.api import Ob, imp, B, items_of, eq, cat, le, be, sym_and, sym_or, sym_not, ite, truth
from refs import wire
from harness.common import sym_tx_fields, build_tx, tx_fields_equal

META = dict(
    level_text="Bounded symbolic checking of the real pack/parse functions of every P2P message type against a reference wire encoder written from the "
               "Bitcoin protocol documentation: all integer fields (full declared range), hashes, addresses, embedded transactions/headers/blocks are "
               "symbolic; array lengths are case-split (0, 1, 2 and 253 for the count prefix).",
    level_note="Trusted: z3, symx, the reference layout table REF in this harness (own transcription of the protocol documentation, independent of "
               "pycoin's STANDARD_P2P_MESSAGES) and refs/wire.py. Double-SHA256 uninterpreted (block merkle roots are terms).",
    stubs=["hashlib.sha256 = uninterpreted function"], assumptions=[],
    outside=["arrays longer than 2 elements other than the 253-element count-prefix case; embedded transactions larger than 2 inputs/outputs; the alert sub-message"],
)

# my own layout table (protocol documentation): message -> [(field, type)]
REF = {
    "version": [("version", "u32"), ("services", "u64"), ("timestamp", "u64"), ("remote_address", "addr"), ("local_address", "addr"),
                ("nonce", "u64"), ("subversion", "str"), ("last_block_index", "u32"), ("relay", "optbool")],
    "verack": [], "getaddr": [], "mempool": [], "sendheaders": [], "filterclear": [], "sendaddrv2": [],
    "addr": [("date_address_tuples", ["u32", "addr"])],
    "inv": [("items", ["inv"])], "getdata": [("items", ["inv"])], "notfound": [("items", ["inv"])],
    "reject": [("message", "str"), ("code", "u8"), ("reason", "str"), ("data", "hash")],
    "getblocks": [("version", "u32"), ("hashes", ["hash"]), ("hash_stop", "hash")],
    "getheaders": [("version", "u32"), ("hashes", ["hash"]), ("hash_stop", "hash")],
    "tx": [("tx", "tx")],
    "block": [("block", "block")],
    "headers": [("headers", ["header", "varint"])],
    "feefilter": [("fee_filter_value", "u64")],
    "sendcmpct": [("enabled", "bool"), ("version", "u64")],
    "cmpctblock": [("header_hash", "hash"), ("nonce", "u64"), ("short_ids", ["u48"]), ("prefilled_txs", ["varint", "tx"])],
    "getblocktxn": [("header_hash", "hash"), ("indices", ["varint"])],
    "blocktxn": [("header_hash", "hash"), ("txs", ["tx"])],
    "ping": [("nonce", "u64")], "pong": [("nonce", "u64")],
    "filterload": [("filter", ["u8"]), ("hash_function_count", "u32"), ("tweak", "u32"), ("flags", "bool")],
    "filteradd": [("data", ["u8"])],
    "merkleblock": [("header", "header"), ("total_transactions", "u32"), ("hashes", ["hash"]), ("flags", ["u8"])],
    "alert": [("payload", "str"), ("signature", "str")],
}


class V(object):
    """a symbolic field value: pycoin-side object, reference bytes, and an equality test against a parsed object"""

    def __init__(self, obj, ref, same):
        self.obj, self.ref, self.same = obj, ref, same


def _H(ctx):
    if ctx.symbolic:
        from symx.shims import hashlib_shim as h
    else:
        import hashlib as h
    return lambda b: h.sha256(h.sha256(b).digest()).digest()


def mk(ctx, typ, name, net):
    if typ == "u8":
        v = ctx.sym_int(name, 0, 0xFF)
        return V(v, B([v]), lambda o: o == v)
    if typ == "u32":
        v = ctx.sym_int(name, 0, 0xFFFFFFFF)
        return V(v, le(v, 4), lambda o: o == v)
    if typ == "u48":
        v = ctx.sym_int(name, 0, (1 << 48) - 1)
        return V(v, le(v, 6), lambda o: o == v)
    if typ == "u64":
        v = ctx.sym_int(name, 0, (1 << 64) - 1)
        return V(v, le(v, 8), lambda o: o == v)
    if typ == "varint":
        v = ctx.sym_int(name, 0, (1 << 64) - 1)
        return V(v, wire.compact_size(v), lambda o: o == v)
    if typ == "bool":
        v = ctx.sym_bool(name)
        return V(v, B([ite(v, 1, 0)]), lambda o: eq(truth(o), v) if not isinstance(truth(o), bool) or not isinstance(v, bool) else bool(o) == v)
    if typ == "optbool":
        mode = ctx.choose(name + ".present", ["absent", "present"])
        if mode == "absent":
            return V(None, b"", lambda o: o is None or o is False or o == 0)
        v = ctx.sym_bool(name)
        return V(v, B([ite(v, 1, 0)]), lambda o: eq(truth(o), v) if not (isinstance(truth(o), bool) and isinstance(v, bool)) else bool(o) == v)
    if typ == "hash":
        v = ctx.sym_bytes(name, 32)
        return V(v, v, lambda o: eq(o, v))
    if typ == "str":
        n = ctx.choose(name + ".len", [0, 1, 3, 253])
        v = ctx.sym_bytes(name, n) if n <= 3 else cat(ctx.sym_bytes(name, 2), bytes(n - 2))
        return V(v, wire.varstr(v), lambda o: eq(o, v))
    if typ == "addr":
        PeerAddress = imp("pycoin.message.PeerAddress").PeerAddress
        services = ctx.sym_int(name + ".services", 0, (1 << 64) - 1)
        kind = ctx.choose(name + ".ipkind", ["ipv6", "ipv4"])
        port = ctx.sym_int(name + ".port", 0, 0xFFFF)
        if kind == "ipv4":
            ip4 = ctx.sym_bytes(name + ".ip4", 4)
            ip = cat(bytes(10) + b"\xff\xff", ip4)
            obj = PeerAddress(services, ip4, port)
        else:
            ip = ctx.sym_bytes(name + ".ip6", 16)
            obj = PeerAddress(services, ip, port)
        return V(obj, cat(le(services, 8), ip, be(port, 2)),
                 lambda o: sym_and(o.services == services, eq(o.ip_bin, ip), o.port == port))
    if typ == "inv":
        InvItem = imp("pycoin.message.InvItem").InvItem
        t = ctx.sym_int(name + ".type", 0, 0xFFFFFFFF)
        h = ctx.sym_bytes(name + ".hash", 32)
        obj = InvItem(t, h, dont_check=True)
        return V(obj, cat(le(t, 4), h), lambda o: sym_and(o.item_type == t, eq(o.data, h)))
    if typ == "tx":
        f = sym_tx_fields(ctx, dict(ins=[dict(script=1)], outs=[dict(script=1)]), prefix=name + ".")
        obj = build_tx(net.tx, f)
        return V(obj, wire.ser_tx(f), lambda o: tx_fields_equal(o, f))
    if typ == "header":
        hf = dict(version=ctx.sym_int(name + ".version", 0, 0xFFFFFFFF), prev=ctx.sym_bytes(name + ".prev", 32), merkle=ctx.sym_bytes(name + ".merkle", 32),
                  time=ctx.sym_int(name + ".time", 0, 0xFFFFFFFF), bits=ctx.sym_int(name + ".bits", 0, 0xFFFFFFFF), nonce=ctx.sym_int(name + ".nonce", 0, 0xFFFFFFFF))
        obj = net.block(hf["version"], hf["prev"], hf["merkle"], hf["time"], hf["bits"], hf["nonce"])
        return V(obj, wire.ser_header(hf), lambda o: sym_and(o.version == hf["version"], eq(o.previous_block_hash, hf["prev"]), eq(o.merkle_root, hf["merkle"]),
                                                            o.timestamp == hf["time"], o.difficulty == hf["bits"], o.nonce == hf["nonce"]))
    if typ == "block":
        H = _H(ctx)
        f = sym_tx_fields(ctx, dict(ins=[dict(script=1)], outs=[dict(script=1)]), prefix=name + ".tx0.")
        tx = build_tx(net.tx, f)
        root = H(wire.ser_tx(f, with_witness=False))
        hf = dict(version=ctx.sym_int(name + ".version", 0, 0xFFFFFFFF), prev=ctx.sym_bytes(name + ".prev", 32), merkle=root,
                  time=ctx.sym_int(name + ".time", 0, 0xFFFFFFFF), bits=ctx.sym_int(name + ".bits", 0, 0xFFFFFFFF), nonce=ctx.sym_int(name + ".nonce", 0, 0xFFFFFFFF))
        obj = net.block(hf["version"], hf["prev"], hf["merkle"], hf["time"], hf["bits"], hf["nonce"])
        obj.set_txs([tx])
        raw = cat(wire.ser_header(hf), b"\x01", wire.ser_tx(f))
        return V(obj, raw, lambda o: eq(o.as_bin(), raw))
    raise ValueError(typ)


def message(ctx, name, count=None):
    net = imp("pycoin.symbols.btc").network
    layout = REF[name]
    kwargs = {}
    ref_parts = []
    checks = []
    for field, typ in layout:
        if isinstance(typ, list):
            n = count if count is not None else 1
            vals = []
            ref_parts.append(wire.compact_size(n))
            sames = []
            for k in range(n):
                if k >= 2 and n > 3:
                    # long array (count-prefix case): elements beyond the second repeat the first element's objects
                    vs = vals_first
                else:
                    vs = [mk(ctx, t, "%s[%d].%d" % (field, k, j), net) for j, t in enumerate(typ)]
                    if k == 0:
                        vals_first = vs
                vals.append(tuple(v.obj for v in vs) if len(vs) > 1 else vs[0].obj)
                for v in vs:
                    ref_parts.append(v.ref)
                sames.append(vs)
            kwargs[field] = vals

            def chk(parsed, sames=sames, single=(len(typ) == 1)):
                if len(parsed) != len(sames):
                    return False
                cs = []
                for p, vs in zip(parsed, sames):
                    if single:
                        cs.append(vs[0].same(p))
                    else:
                        if len(p) != len(vs):
                            return False
                        cs += [v.same(x) for v, x in zip(vs, p)]
                return sym_and(*cs) if cs else True
            checks.append((field, chk))
        else:
            v = mk(ctx, typ, field, net)
            kwargs[field] = v.obj
            ref_parts.append(v.ref)
            checks.append((field, v.same))
    if name == "merkleblock":
        # parse() validates the proof; use the one-leaf proof (root = the single hash, flag bit 0 or 1 set)
        pass
    try:
        data = net.message.pack(name, **kwargs)
    except Exception as e:
        ctx.note("pack(%s) raised %r" % (name, e))
        ctx.check(False, "pack-succeeds")
    want = cat(*ref_parts) if ref_parts else b""
    ctx.check(eq(data, want), "packed-bytes-equal-wire-encoding")
    if name in ("merkleblock", "alert"):
        return   # parse() post-processes these (proof validation: C14; alert sub-message): byte layout only
    try:
        d = net.message.parse(name, data)
    except Exception as e:
        ctx.note("parse(%s) raised %r" % (name, e))
        ctx.check(False, "parse-succeeds")
    for field, same in checks:
        if field == "relay":
            ctx.known_class("F13-relay-false-parses-true", True)
        ctx.check(same(d[field]), "field-roundtrip:" + field)


def obligations(tier):
    T = tier == "thorough"
    obs = []
    for name, layout in REF.items():
        has_array = any(isinstance(t, list) for _, t in layout)
        counts = [None]
        if has_array:
            counts = [0, 1, 2] + ([253] if name in ("inv", "getblocks", "filteradd", "getblocktxn", "cmpctblock") or T else [])
        for c in counts:
            nm = "C16.%s" % name + ("" if c is None else ".count%d" % c)
            obs.append(Ob(nm, message, "message '%s'%s: every field value of the declared type" % (name, "" if c is None else " with %d array elements" % c),
                          dict(name=name, count=c), expect=["packed-bytes-equal-wire-encoding"], weight=3 if c == 253 else 1, max_paths=20000))
    return obs
