"""symx.core - path exploration, SymBool, SymInt.

Execution model: the harness function is an ordinary Python function that runs the *real*
code under test on proxy values.  Every truth test of a symbolic condition is a decision;
the explorer enumerates decision sequences depth-first by re-execution, asking z3 which
sides are feasible.  Integers are exact: a SymInt carries a signed bit-vector that is always
wide enough for the interval of values it can take (interval arithmetic alongside), so
Python's unbounded int semantics are preserved without overflow.
"""
from __future__ import annotations

import sys
import time

try:
    import z3
except ImportError:  # replay interpreter: concrete mode only
    z3 = None

sys.setrecursionlimit(20000)
if hasattr(sys, "set_int_max_str_digits"):
    sys.set_int_max_str_digits(0)   # z3's BitVecVal renders constants as decimal text

MAX_WIDTH = 8192


class EngineError(BaseException):
    """The engine or a harness cannot represent what the code did.  Never a verdict."""


class PathAbort(BaseException):
    kind = "abort"


class AssumeFailed(PathAbort):
    kind = "assume"


class UnwindExceeded(PathAbort):
    kind = "unwind"


class SolverUnknown(PathAbort):
    kind = "unknown"


class ViolationFound(PathAbort):
    kind = "violation"


class SpecFail(BaseException):
    """raised inside speculative (merge) evaluation when a fork would be needed"""


CUR = None  # the active Explorer (one per process)
PARANOID = bool(__import__('os').environ.get('SYMX_PARANOID'))
SITES = {} if __import__('os').environ.get('SYMX_SITES') else None      # debugging aid: count new decisions per source line


def _note_site():
    import sys as _s
    f = _s._getframe(2)
    chain = []
    while f is not None and len(chain) < 3:
        fn = f.f_code.co_filename
        if '/symx/' not in fn:
            chain.append('%s:%d' % (fn.split('/')[-1], f.f_lineno))
        f = f.f_back
    k = ' < '.join(chain)
    SITES[k] = SITES.get(k, 0) + 1

EQ_HOOK = None   # optional provenance-based equality (installed by symx.seq)


def cur():
    if CUR is None:
        raise EngineError("symbolic value used outside an exploration")
    return CUR


# ----------------------------------------------------------------------------------------
# helpers on z3 bit-vectors

def need(lo, hi):
    a = lo.bit_length() if lo >= 0 else (~lo).bit_length()
    b = hi.bit_length() if hi >= 0 else (~hi).bit_length()
    return max(a, b) + 1


def sx(e, w):
    c = e.size()
    if c == w:
        return e
    if c < w:
        return z3.SignExt(w - c, e)
    return low(e, w)


_RING_OPS = None
_low_cache = {}


def _init_ops():
    global _RING_OPS
    _RING_OPS = {
        z3.Z3_OP_BADD: lambda a: _fold(lambda x, y: x + y, a),
        z3.Z3_OP_BMUL: lambda a: _fold(lambda x, y: x * y, a),
        z3.Z3_OP_BSUB: lambda a: _fold(lambda x, y: x - y, a),
        z3.Z3_OP_BAND: lambda a: _fold(lambda x, y: x & y, a),
        z3.Z3_OP_BOR: lambda a: _fold(lambda x, y: x | y, a),
        z3.Z3_OP_BXOR: lambda a: _fold(lambda x, y: x ^ y, a),
        z3.Z3_OP_BNEG: lambda a: -a[0],
        z3.Z3_OP_BNOT: lambda a: ~a[0],
    }


def _fold(f, args):
    r = args[0]
    for x in args[1:]:
        r = f(r, x)
    return r


def low(e, k):
    """low k bits of bit-vector e (k <= e.size()), pushing the truncation through ring
    operations so that wide intermediate terms never reach the solver."""
    w = e.size()
    if k == w:
        return e
    if k > w:
        raise EngineError("low(): k > width")
    key = (e.get_id(), k)
    r = _low_cache.get(key)
    if r is not None:
        return r[1]
    if _RING_OPS is None:
        _init_ops()
    r = None
    if z3.is_bv_value(e):
        r = z3.BitVecVal(e.as_long() & ((1 << k) - 1), k)
    elif z3.is_app(e):
        kind = e.decl().kind()
        f = _RING_OPS.get(kind)
        if f is not None:
            r = f([low(e.arg(i), k) for i in range(e.num_args())])
        elif kind in (z3.Z3_OP_SIGN_EXT, z3.Z3_OP_ZERO_EXT):
            inner = e.arg(0)
            iw = inner.size()
            if k <= iw:
                r = low(inner, k)
            elif kind == z3.Z3_OP_SIGN_EXT:
                r = z3.SignExt(k - iw, inner)
            else:
                r = z3.ZeroExt(k - iw, inner)
        elif kind == z3.Z3_OP_EXTRACT:
            hi_, lo_ = e.params()
            inner = e.arg(0)
            if lo_ == 0:
                r = low(inner, k)
            else:
                r = z3.Extract(lo_ + k - 1, lo_, inner)
        elif kind == z3.Z3_OP_CONCAT:
            last = e.arg(e.num_args() - 1)
            if k <= last.size():
                r = low(last, k)
            else:
                # keep as many trailing args as needed
                parts = []
                rem = k
                for i in range(e.num_args() - 1, -1, -1):
                    a = e.arg(i)
                    if rem <= 0:
                        break
                    if a.size() <= rem:
                        parts.append(a)
                        rem -= a.size()
                    else:
                        parts.append(low(a, rem))
                        rem = 0
                parts.reverse()
                r = z3.Concat(*parts) if len(parts) > 1 else parts[0]
        elif kind == z3.Z3_OP_ITE:
            r = z3.If(e.arg(0), low(e.arg(1), k), low(e.arg(2), k))
        elif kind == z3.Z3_OP_BSHL and z3.is_bv_value(e.arg(1)):
            c = e.arg(1).as_long()
            if c >= k:
                r = z3.BitVecVal(0, k)
            else:
                r = z3.Concat(low(e.arg(0), k - c), z3.BitVecVal(0, c)) if c else low(e.arg(0), k)
    if r is None:
        r = z3.Extract(k - 1, 0, e)
    _low_cache[key] = (e, r)  # keep e alive so ids are not reused
    if len(_low_cache) > 400000:
        _low_cache.clear()
    return r


def concat_bytes(items):
    """bit-vector of 8*len(items) bits, big-endian; runs of concrete bytes become one constant"""
    parts = []
    run = 0
    runlen = 0
    for it in items:
        if isinstance(it, int):
            run = (run << 8) | it
            runlen += 1
        else:
            if runlen:
                parts.append(z3.BitVecVal(run, 8 * runlen))
                run = 0
                runlen = 0
            parts.append(it.lowbits(8))
    if runlen:
        parts.append(z3.BitVecVal(run, 8 * runlen))
    return z3.Concat(*parts) if len(parts) > 1 else parts[0]


def bv(v, w):
    return z3.BitVecVal(v, w)


# ----------------------------------------------------------------------------------------
# SymBool

class SymBool:
    __slots__ = ("e",)

    def __init__(self, e):
        self.e = e

    def __bool__(self):
        return cur().branch(self.e)

    def _int(self):
        return SymInt(z3.If(self.e, bv(1, 2), bv(0, 2)), 0, 1)

    def __index__(self):
        return 1 if self.__bool__() else 0

    __int__ = __index__

    def __hash__(self):
        return hash(self.__bool__())

    def __repr__(self):
        return "<SymBool>"

    def __eq__(self, o):
        if isinstance(o, SymBool):
            return SymBool(self.e == o.e)
        if isinstance(o, bool):
            return self if o else SymBool(z3.Not(self.e))
        if isinstance(o, (int, SymInt)):
            return self._int() == o
        return False

    def __ne__(self, o):
        r = self.__eq__(o)
        if isinstance(r, SymBool):
            return SymBool(z3.Not(r.e))
        return not r

    def __and__(self, o):
        if isinstance(o, SymBool):
            return SymBool(z3.And(self.e, o.e))
        if isinstance(o, bool):
            return self if o else False
        return self._int() & o

    __rand__ = __and__

    def __or__(self, o):
        if isinstance(o, SymBool):
            return SymBool(z3.Or(self.e, o.e))
        if isinstance(o, bool):
            return True if o else self
        return self._int() | o

    __ror__ = __or__

    def __xor__(self, o):
        if isinstance(o, SymBool):
            return SymBool(z3.Xor(self.e, o.e))
        if isinstance(o, bool):
            return SymBool(z3.Not(self.e)) if o else self
        return self._int() ^ o

    __rxor__ = __xor__

    def __invert__(self):
        return ~self._int()

    def __add__(self, o):
        return self._int() + o

    __radd__ = __add__

    def __sub__(self, o):
        return self._int() - o

    def __rsub__(self, o):
        return o - self._int()

    def __mul__(self, o):
        return self._int() * o

    __rmul__ = __mul__

    def __lt__(self, o):
        return self._int() < o

    def __le__(self, o):
        return self._int() <= o

    def __gt__(self, o):
        return self._int() > o

    def __ge__(self, o):
        return self._int() >= o

    def __neg__(self):
        return -self._int()

    def __lshift__(self, o):
        return self._int() << o

    def __rlshift__(self, o):
        return o << self._int()


def sym_not(x):
    if isinstance(x, SymBool):
        return SymBool(z3.Not(x.e))
    return not x


def sym_and(*xs):
    es = []
    for x in xs:
        if isinstance(x, SymBool):
            es.append(x.e)
        elif not truth(x):
            return False
    if not es:
        return True
    return SymBool(z3.And(*es)) if len(es) > 1 else SymBool(es[0])


def sym_or(*xs):
    es = []
    for x in xs:
        if isinstance(x, SymBool):
            es.append(x.e)
        elif truth(x):
            return True
    if not es:
        return False
    return SymBool(z3.Or(*es)) if len(es) > 1 else SymBool(es[0])


def sym_implies(a, b):
    return sym_or(sym_not(a), b)


def truth(x):
    """truth value of x as bool or SymBool, without forking"""
    if isinstance(x, SymBool):
        return x
    if isinstance(x, SymInt):
        return x != 0
    if isinstance(x, bool):
        return x
    return bool(x)


def as_z3_bool(x):
    x = truth(x)
    if isinstance(x, SymBool):
        return x.e
    return z3.BoolVal(bool(x))


# ----------------------------------------------------------------------------------------
# SymInt

UNI = None   # per-obligation uniform width: arithmetic results are kept at this width (no intermediate narrowing), so that
             # z3's sum normaliser can cancel linear identities syntactically
CAP = None   # per-obligation width cap: values whose interval needs more bits are tracked modulo 2**CAP ("inexact")
HUGE = 1 << 20000


def trunc(e, w):
    if e.size() <= w:
        return e
    return z3.Extract(w - 1, 0, e) if CAP is not None else low(e, w)


def memo(tag, items, fn):
    """per-path memo for pure helpers over sequences of items (ints / SymInts): the same terms in, the same terms out.
    Saves re-building identical z3 terms when the code under test repeats a conversion (b2h, upper, int) on the same data."""
    ex = CUR
    m = getattr(ex, "memo", None)
    if m is None:
        return fn()
    key = (tag,) + tuple(it if isinstance(it, int) else ("s", it.e.get_id()) if isinstance(it, SymInt) else ("o", id(it)) for it in items)
    hit = m.get(key)
    if hit is not None:
        if hit[1] == "exc":
            raise hit[2](*hit[3])
        return hit[2]
    try:
        r = fn()
    except ValueError as e:
        m[key] = (list(items), "exc", type(e), e.args)
        raise
    m[key] = (list(items), "ok", r)       # the items are kept alive so that z3 term ids cannot be recycled
    return r


def mk_int(e, lo, hi, inx=False):
    if lo == hi and not inx:
        return lo
    if lo > hi:
        raise EngineError("empty interval")
    w = need(lo, hi)
    if inx or (CAP is not None and w > CAP + 1):
        if CAP is None:
            raise EngineError("inexact integer without a width cap")
        if e.size() > CAP:
            e = z3.Extract(CAP - 1, 0, e)
        elif e.size() < CAP:
            if inx:
                raise EngineError("inexact value narrower than the cap")
            e = z3.SignExt(CAP - e.size(), e)
        return SymInt(e, max(lo, -HUGE), min(hi, HUGE), True)
    if w > MAX_WIDTH:
        raise EngineError("integer wider than %d bits" % MAX_WIDTH)
    if UNI is not None and e.size() == UNI and w <= UNI:
        return SymInt(e, lo, hi)
    if e.size() > w:
        e = trunc(e, w)
    elif e.size() < w:
        e = z3.SignExt(w - e.size(), e)
    return SymInt(e, lo, hi)


def _ring(f, lo, hi, *ops):
    """ring / bitwise operation whose low bits depend only on the operands' low bits"""
    inx = False
    for p in ops:
        if isinstance(p, SymInt) and p.inx:
            inx = True
    w = need(lo, hi)
    if inx or (CAP is not None and w > CAP + 1):
        if CAP is None:
            raise EngineError("inexact operand without a width cap")
        w = CAP
        inx = True
    elif UNI is not None and w <= UNI:
        w = UNI
    args = [bv(p, w) if isinstance(p, int) else p.at(w) for p in ops]
    return mk_int(f(*args), lo, hi, inx)


def _coerce(o):
    """-> (expr or None, lo, hi) for ints / SymInt / SymBool / bool; else None"""
    if isinstance(o, SymInt):
        return o
    if isinstance(o, SymBool):
        return o._int()
    if isinstance(o, int):
        return o
    return None


def _coerce_cmp(o):
    """comparison operand: additionally accepts integral decimal.Decimal / float constants
    (comparing an int with them is exact in Python)"""
    r = _coerce(o)
    if r is None and not isinstance(o, (str, bytes)):
        try:
            import decimal
            if isinstance(o, (decimal.Decimal, float)) and o == int(o):
                return int(o)
        except (ValueError, OverflowError, ArithmeticError):
            return None
    return r


_AFF_MIN = 1 << 64


def _aff_note(res, src, a, b):
    """remember that res == a*base + b for a wide symbolic base (mathematical integers): lets a later `% n` be computed from base % n"""
    ex = CUR
    if ex is None or not isinstance(res, SymInt) or res.inx or src.inx or src.hi - src.lo < _AFF_MIN:
        return res
    t = ex.aff.get(src.e.get_id())
    if t is not None:
        base, a0, b0 = t[1], t[2], t[3]
        ex.aff[res.e.get_id()] = (res.e, base, a0 * a, b0 * a + b)
    else:
        ex.aff[res.e.get_id()] = (res.e, src, a, b)
    return res


class SymInt:
    __slots__ = ("e", "lo", "hi", "inx")

    def __init__(self, e, lo, hi, inx=False):
        self.e = e      # exact: signed bit-vector of width >= need(lo, hi); inexact: value mod 2**CAP (CAP bits)
        self.lo = lo
        self.hi = hi
        self.inx = inx

    def _exact(self, what):
        if self.inx:
            raise EngineError("WidthExceeded: %s needs the true value of an integer tracked modulo 2**%s "
                              "(raise the obligation's width cap)" % (what, CAP))

    # -- representation ------------------------------------------------------------
    @property
    def w(self):
        return self.e.size()

    def at(self, w):
        if self.inx:
            if w != CAP:
                raise EngineError("inexact value used at width %d != cap" % w)
            return self.e
        c = self.e.size()
        if c == w:
            return self.e
        if c < w:
            return z3.SignExt(w - c, self.e)
        return trunc(self.e, w)

    def __repr__(self):
        return "<SymInt [%d,%d]>" % (self.lo, self.hi) if abs(self.lo) < 1 << 70 and abs(self.hi) < 1 << 70 else "<SymInt wide>"

    __str__ = __repr__

    def __format__(self, spec):
        return "<sym>"

    # -- concretisation -------------------------------------------------------------
    def concretize(self):
        return cur().concretize(self)

    def __index__(self):
        self._exact("index/int()")
        return cur().concretize(self)

    __int__ = __index__

    def __hash__(self):
        return hash(cur().concretize(self))

    def __bool__(self):
        r = self != 0
        if isinstance(r, bool):
            return r
        return cur().branch(r.e)

    def __float__(self):
        raise EngineError("float() of a symbolic integer")

    def __truediv__(self, o):
        raise EngineError("true division of a symbolic integer")

    __rtruediv__ = __truediv__

    # -- arithmetic --------------------------------------------------------------------
    def __add__(self, o):
        o = _coerce(o)
        if o is None:
            return NotImplemented
        if isinstance(o, int):
            if o == 0:
                return self
            return _aff_note(_ring(lambda a, b: a + b, self.lo + o, self.hi + o, self, o), self, 1, o)
        return _ring(lambda a, b: a + b, self.lo + o.lo, self.hi + o.hi, self, o)

    __radd__ = __add__

    def __neg__(self):
        return _aff_note(_ring(lambda a: -a, -self.hi, -self.lo, self), self, -1, 0)

    def __pos__(self):
        return self

    def __sub__(self, o):
        o = _coerce(o)
        if o is None:
            return NotImplemented
        if isinstance(o, int):
            return self.__add__(-o)
        return _ring(lambda a, b: a - b, self.lo - o.hi, self.hi - o.lo, self, o)

    def __rsub__(self, o):
        o = _coerce(o)
        if o is None:
            return NotImplemented
        return (-self).__add__(o)

    def __mul__(self, o):
        o = _coerce(o)
        if o is None:
            return NotImplemented
        if isinstance(o, int):
            if o == 0:
                return 0
            if o == 1:
                return self
            cs = (self.lo * o, self.hi * o)
            lo, hi = min(cs), max(cs)
            if o > 0 and o & (o - 1) == 0:
                return _aff_note(self << (o.bit_length() - 1), self, o, 0)
            return _aff_note(_ring(lambda a, b: a * b, lo, hi, self, o), self, o, 0)
        cs = (self.lo * o.lo, self.lo * o.hi, self.hi * o.lo, self.hi * o.hi)
        return _ring(lambda a, b: a * b, min(cs), max(cs), self, o)

    __rmul__ = __mul__

    def __abs__(self):
        self._exact("abs()")
        if self.lo >= 0:
            return self
        if self.hi <= 0:
            return -self
        hi = max(-self.lo, self.hi)
        w = need(0, hi)
        e = self.at(w)
        return mk_int(z3.If(e < 0, -e, e), 0, hi)

    def __invert__(self):
        return _ring(lambda a: ~a, ~self.hi, ~self.lo, self)

    # floor division / modulo (Python semantics)
    def _divmod(self, o, want):
        o = _coerce(o)
        if o is None:
            return NotImplemented
        if isinstance(o, int) and o > 0 and o & (o - 1) == 0 and want == "r":
            return self & (o - 1)
        self._exact("division")
        if isinstance(o, SymInt):
            o._exact("division")
        if isinstance(o, int):
            if o == 0:
                raise ZeroDivisionError("integer division or modulo by zero")
            if o > 0 and o & (o - 1) == 0:
                k = o.bit_length() - 1
                if want == "r":
                    return self & (o - 1)
                if CUR is None or CUR.no_fork or k == 0 or self.hi - self.lo < (1 << 40):
                    if want == "q":
                        return self >> k
                    return (self >> k, self & (o - 1))
            if o > 0 and CUR is not None and not CUR.no_fork:
                if want == "r":
                    t = CUR.aff.get(self.e.get_id())
                    if t is not None:
                        # (a*base + b) mod o == (a*(base mod o) + b) mod o : one remainder per wide base, small arithmetic afterwards
                        rb = t[1] % o
                        return (t[2] * rb + t[3]) % o
                return self._divmod_const_spec(o, want)
            olo = ohi = o
            w = max(need(self.lo, self.hi), need(o, o)) + 1
            oe = bv(o, w)
        else:
            if o.lo <= 0 <= o.hi:
                if cur().branch((o == 0).e):
                    raise ZeroDivisionError("integer division or modulo by zero")
                # refine interval
                if o.lo == 0:
                    o = SymInt(o.e, 1, o.hi)
                elif o.hi == 0:
                    o = SymInt(o.e, o.lo, -1)
            olo, ohi = o.lo, o.hi
            w = max(need(self.lo, self.hi), need(olo, ohi)) + 1
            oe = o.at(w)
        a = self.at(w)
        if self.lo >= 0 and olo > 0:
            q = z3.UDiv(a, oe)
            r = z3.URem(a, oe)
            qlo, qhi = self.lo // ohi, self.hi // olo
            rlo, rhi = 0, min(self.hi, ohi - 1)
        else:
            # z3 sdiv truncates toward zero, srem takes the sign of the dividend
            q0 = a / oe
            r0 = z3.SRem(a, oe)
            fix = z3.And(r0 != 0, (r0 < 0) != (oe < 0))
            q = z3.If(fix, q0 - 1, q0)
            r = z3.If(fix, r0 + oe, r0)
            m = max(abs(self.lo), abs(self.hi))
            qlo, qhi = -m - 1, m + 1
            if olo > 0:
                rlo, rhi = 0, ohi - 1
            elif ohi < 0:
                rlo, rhi = olo + 1, 0
            else:
                rlo, rhi = olo + 1, ohi - 1
        if want == "q":
            return mk_int(q, qlo, qhi)
        if want == "r":
            return mk_int(r, rlo, rhi)
        return (mk_int(q, qlo, qhi), mk_int(r, rlo, rhi))

    def _divmod_const_spec(self, o, want):
        """floor division by a positive constant through its specification: fresh q, r with
        self == q*o + r and 0 <= r < o (q and r are uniquely determined, so this is exact); the solver then
        needs a constant multiplier instead of a divider circuit"""
        ex = CUR
        ck = (self.e.get_id(), o)
        hit = ex.div_cache.get(ck)
        if hit is not None:
            Q, R = hit[1], hit[2]
            if isinstance(R, SymInt):
                cv = ex.conc.get(R.e.get_id())
                if cv is not None:
                    R = cv[1]               # the remainder was fixed by a concretize() on this path
            return Q if want == "q" else (R if want == "r" else (Q, R))
        qlo, qhi = self.lo // o, self.hi // o
        if qhi - qlo <= 8:
            # few possible quotients (typical of modular reduction after an addition): comparisons instead of a multiplier
            q = qlo
            sub = qlo * o
            for m in range(qlo + 1, qhi + 1):
                ge = self >= m * o
                q = q + ite(ge, 1, 0)
                sub = sub + ite(ge, o, 0)
            r = self - sub
            if isinstance(r, SymInt):
                r = mk_int(r.e, max(r.lo, 0), min(r.hi, o - 1)) if not r.inx else r
            if want == "q":
                return q
            if want == "r":
                return r
            return (q, r)
        rlo, rhi = (0, o - 1) if qlo != qhi else (min(self.lo - qlo * o, self.hi - qlo * o), max(self.lo - qlo * o, self.hi - qlo * o))
        wq = need(qlo, qhi)
        wr = need(0, o - 1)
        q = z3.BitVec(ex.fresh_name("divq"), wq)
        r = z3.BitVec(ex.fresh_name("divr"), wr)
        w = max(self.w, wq + need(o, o) + 1, wr + 1) + 1
        if UNI is not None and w <= UNI:
            w = UNI
        qe = z3.SignExt(w - wq, q)
        re = z3.ZeroExt(w - wr, r) if w > wr else r
        ex.pc.append(z3.And(self.at(w) == qe * bv(o, w) + re, z3.ULT(r, bv(o, wr)) if o < (1 << wr) else z3.BoolVal(True),
                            q >= bv(qlo, wq), q <= bv(qhi, wq)))
        ex.model = None
        Q = mk_int(q, qlo, qhi)
        R = mk_int(z3.ZeroExt(1, r), 0, o - 1)
        ex.div_cache[ck] = (self.e, Q, R)     # the same dividend term divided again yields the same quotient / remainder terms
        if want == "q":
            return Q
        if want == "r":
            return R
        return (Q, R)

    def __floordiv__(self, o):
        return self._divmod(o, "q")

    def __mod__(self, o):
        return self._divmod(o, "r")

    def __divmod__(self, o):
        return self._divmod(o, "qr")

    def _as_sym(self):
        return self

    def __rfloordiv__(self, o):
        if not isinstance(o, int):
            return NotImplemented
        return _const_sym(o, self)._divmod(self, "q")

    def __rmod__(self, o):
        if not isinstance(o, int):
            return NotImplemented
        return _const_sym(o, self)._divmod(self, "r")

    def __rdivmod__(self, o):
        if not isinstance(o, int):
            return NotImplemented
        return _const_sym(o, self)._divmod(self, "qr")

    def __pow__(self, e, m=None):
        if isinstance(e, (SymInt, SymBool)):
            raise EngineError("symbolic exponent")
        if not isinstance(e, int):
            return NotImplemented
        if e < 0:
            raise EngineError("negative exponent on symbolic base")
        return sym_pow(self, e, m)

    def __rpow__(self, base, m=None):
        if base == 2 and m is None:
            return 1 << self
        raise EngineError("symbolic exponent")

    # -- bit operations ------------------------------------------------------------------
    def lowbits(self, k):
        """bit-vector of width k holding self mod 2**k"""
        if self.inx:
            if k > CAP:
                raise EngineError("WidthExceeded: %d low bits of a value tracked modulo 2**%d" % (k, CAP))
            return self.e if k == CAP else z3.Extract(k - 1, 0, self.e)
        if k <= self.w:
            return trunc(self.e, k)
        return z3.SignExt(k - self.w, self.e)

    def __and__(self, o):
        o = _coerce(o)
        if o is None:
            return NotImplemented
        if isinstance(o, int):
            if o == 0:
                return 0
            if o == -1:
                return self
            if o > 0:
                k = o.bit_length()
                e = self.lowbits(k)
                if o != (1 << k) - 1:
                    e = e & bv(o, k)
                hi = min(o, self.hi) if self.lo >= 0 else o
                return mk_int(z3.ZeroExt(1, e), 0, hi)
            if self.inx:
                return _ring(lambda a, b: a & b, -HUGE, HUGE, self, o)
            w = max(self.w, need(o, o))
            return mk_int(self.at(w) & bv(o, w), -(1 << (w - 1)), (1 << (w - 1)) - 1)
        if (self.lo >= 0 and not self.inx) or (o.lo >= 0 and not o.inx):
            his = [x.hi for x in (self, o) if x.lo >= 0 and not x.inx]
            hi = min(his)
            k = max(hi.bit_length(), 1)
            return mk_int(z3.ZeroExt(1, self.lowbits(k) & o.lowbits(k)), 0, hi)
        if self.inx or o.inx:
            return _ring(lambda a, b: a & b, -HUGE, HUGE, self, o)
        w = max(self.w, o.w)
        return mk_int(self.at(w) & o.at(w), -(1 << (w - 1)), (1 << (w - 1)) - 1)

    __rand__ = __and__

    def _orxor(self, o, f):
        o = _coerce(o)
        if o is None:
            return NotImplemented
        if isinstance(o, int) and o == 0:
            return self
        if self.inx or (isinstance(o, SymInt) and o.inx):
            return _ring(f, -HUGE, HUGE, self, o)
        if isinstance(o, int):
            olo = ohi = o
            w = max(self.w, need(o, o))
            oe = bv(o, w)
        else:
            olo, ohi = o.lo, o.hi
            w = max(self.w, o.w)
            oe = o.at(w)
        if self.lo >= 0 and olo >= 0:
            k = max(self.hi.bit_length(), ohi.bit_length())
            return mk_int(f(self.at(w), oe), 0, (1 << k) - 1)
        return mk_int(f(self.at(w), oe), -(1 << (w - 1)), (1 << (w - 1)) - 1)

    def __or__(self, o):
        return self._orxor(o, lambda a, b: a | b)

    __ror__ = __or__

    def __xor__(self, o):
        return self._orxor(o, lambda a, b: a ^ b)

    __rxor__ = __xor__

    def __lshift__(self, o):
        o = _coerce(o)
        if o is None:
            return NotImplemented
        if isinstance(o, int):
            if o < 0:
                raise ValueError("negative shift count")
            if o == 0:
                return self
            lo, hi = self.lo << o, self.hi << o
            if self.inx or (CAP is not None and need(lo, hi) > CAP + 1):
                if o >= CAP:
                    return mk_int(bv(0, CAP), lo, hi, True)
                return mk_int(z3.Concat(self.lowbits(CAP - o), bv(0, o)), lo, hi, True)
            return mk_int(z3.Concat(self.e, bv(0, o)), lo, hi)
        self._exact("shift by a symbolic amount")
        o._exact("shift amount")
        if o.lo < 0:
            if cur().branch((o < 0).e):
                raise ValueError("negative shift count")
            o = SymInt(o.e, 0, o.hi)
        if o.hi > 4096:
            raise EngineError("symbolic shift amount too large")
        lo = min(self.lo << o.hi, self.lo << o.lo)
        hi = max(self.hi << o.hi, self.hi << o.lo)
        w = max(need(lo, hi), o.w)
        if CAP is not None and w > CAP + 1:
            raise EngineError("WidthExceeded: symbolic shift beyond the width cap")
        return mk_int(self.at(w) << o.at(w), lo, hi)

    def __rlshift__(self, base):
        if not isinstance(base, int):
            return NotImplemented
        return _const_sym(base, self).__lshift__(self)

    def __rshift__(self, o):
        o = _coerce(o)
        if o is None:
            return NotImplemented
        self._exact("right shift")
        if isinstance(o, int):
            if o < 0:
                raise ValueError("negative shift count")
            if o == 0:
                return self
            if o >= self.w:
                o = self.w - 1
            return mk_int(z3.Extract(self.w - 1, o, self.e), self.lo >> o, self.hi >> o)
        if o.lo < 0:
            if cur().branch((o < 0).e):
                raise ValueError("negative shift count")
            o = SymInt(o.e, 0, o.hi)
        w = max(self.w, o.w)
        sh = o.at(w)
        lo = min(self.lo >> o.lo, self.lo >> o.hi)
        hi = max(self.hi >> o.lo, self.hi >> o.hi)
        return mk_int(self.at(w) >> sh, lo, hi)

    def __rrshift__(self, base):
        if not isinstance(base, int):
            return NotImplemented
        return _const_sym(base, self).__rshift__(self)

    # -- comparisons -----------------------------------------------------------------------
    def _cmp(self, o, f, dis_lt, dis_gt):
        o = _coerce_cmp(o)
        if o is None:
            return NotImplemented
        self._exact("comparison")
        if isinstance(o, SymInt):
            o._exact("comparison")
        if isinstance(o, int):
            olo = ohi = o
        else:
            olo, ohi = o.lo, o.hi
        if self.hi < olo:
            return dis_lt
        if self.lo > ohi:
            return dis_gt
        w = max(self.w, need(olo, ohi))
        oe = bv(o, w) if isinstance(o, int) else o.at(w)
        return SymBool(f(self.at(w), oe))

    def __eq__(self, o):
        if o is self:
            return True
        if EQ_HOOK is not None:
            h = EQ_HOOK(self, o)
            if h is not None:
                return h
        r = self._cmp(o, lambda a, b: a == b, False, False)
        return False if r is NotImplemented else r

    def __ne__(self, o):
        if o is self:
            return False
        if EQ_HOOK is not None:
            h = EQ_HOOK(self, o)
            if h is not None:
                return sym_not(h)
        r = self._cmp(o, lambda a, b: a != b, True, True)
        return True if r is NotImplemented else r

    def __lt__(self, o):
        o2 = _coerce(o)
        if o2 is not None and not isinstance(o2, int) and self.hi <= o2.lo and False:
            pass
        return self._cmp(o, lambda a, b: a < b, True, False)

    def __le__(self, o):
        o2 = _coerce_cmp(o)
        if o2 is not None:
            olo = o2 if isinstance(o2, int) else o2.lo
            if self.hi <= olo:
                return True
        return self._cmp(o, lambda a, b: a <= b, True, False)

    def __gt__(self, o):
        return self._cmp(o, lambda a, b: a > b, False, True)

    def __ge__(self, o):
        o2 = _coerce_cmp(o)
        if o2 is not None:
            ohi = o2 if isinstance(o2, int) else o2.hi
            if self.lo >= ohi:
                return True
        return self._cmp(o, lambda a, b: a >= b, False, True)

    # -- misc int API ------------------------------------------------------------------------
    def bit_length(self):
        self._exact("bit_length")
        a = abs(self)
        if isinstance(a, int):
            return a.bit_length()
        n = a.hi.bit_length()
        r = 0
        # r = number of k in 0..n-1 with a >= 2**k
        for k in range(n):
            r = ite(a >= (1 << k), k + 1, r)
        return r

    def to_bytes(self, length=1, byteorder="big", *, signed=False):
        from .seq import mk_seq
        if isinstance(length, (SymInt, SymBool)):
            length = cur().concretize(length)
        if signed:
            raise EngineError("to_bytes(signed=True) on symbolic int")
        self._exact("to_bytes")
        if self.lo < 0:
            if cur().branch((self < 0).e):
                raise OverflowError("can't convert negative int to unsigned")
        if self.hi >= 1 << (8 * length):
            if cur().branch((self >= (1 << (8 * length))).e):
                raise OverflowError("int too big to convert")
        e = self.lowbits(8 * length) if length else None
        items = [mk_int(z3.ZeroExt(1, z3.Extract(8 * i + 7, 8 * i, e)), 0, 255) for i in range(length)]
        if byteorder == "big":
            items.reverse()
        elif byteorder != "little":
            raise ValueError("byteorder must be either 'little' or 'big'")
        return mk_seq("bytes", items)

    def conjugate(self):
        return self

    @property
    def real(self):
        return self

    @property
    def imag(self):
        return 0

    numerator = real
    denominator = 1


def _const_sym(c, like):
    """a SymInt-typed constant so that reflected operations can reuse the main code path"""
    w = need(c, c)
    s = SymInt(bv(c, w), c, c)
    return s


def sym_pow(base, e, m=None):
    result = 1
    b = base
    if m is not None:
        b = b % m
    while e:
        if e & 1:
            result = result * b
            if m is not None:
                result = result % m
        e >>= 1
        if e:
            b = b * b
            if m is not None:
                b = b % m
    if m is not None and isinstance(result, int):
        result %= m
    return result


def ite(c, a, b):
    """value-level if-then-else without forking (ints/bools only)"""
    c = truth(c)
    if not isinstance(c, SymBool):
        return a if c else b
    if isinstance(a, (bool, SymBool)) and isinstance(b, (bool, SymBool)):
        return SymBool(z3.If(c.e, as_z3_bool(a), as_z3_bool(b)))
    a2, b2 = _coerce(a), _coerce(b)
    if a2 is None or b2 is None:
        raise EngineError("ite() on non-integers: %r %r" % (type(a), type(b)))
    if isinstance(a2, int) and isinstance(b2, int) and a2 == b2:
        return a2
    alo, ahi = (a2, a2) if isinstance(a2, int) else (a2.lo, a2.hi)
    blo, bhi = (b2, b2) if isinstance(b2, int) else (b2.lo, b2.hi)
    lo, hi = min(alo, blo), max(ahi, bhi)
    return _ring(lambda x, y: z3.If(c.e, x, y), lo, hi, a2, b2)


def is_sym(x):
    return isinstance(x, (SymInt, SymBool)) or getattr(x, "_symx_symbolic", False)


# ----------------------------------------------------------------------------------------
# Explorer

def _cvc5_unsat(assumptions, timeout_s):
    import shutil
    import subprocess
    import tempfile
    exe = shutil.which("cvc5")
    if exe is None:
        return False
    s = z3.Solver()
    s.add(*assumptions)
    text = "(set-logic ALL)\n" + s.to_smt2()
    with tempfile.NamedTemporaryFile("w", suffix=".smt2", delete=False) as f:
        f.write(text)
        path = f.name
    try:
        r = subprocess.run([exe, "--solve-bv-as-int=sum", path], capture_output=True, text=True, timeout=max(10, timeout_s))
        out = r.stdout.strip().splitlines()
        return bool(out) and out[0].strip() == "unsat" and "(error" not in r.stdout
    except Exception:
        return False
    finally:
        import os
        os.unlink(path)


class Violation:
    def __init__(self, label, inputs, note=""):
        self.label = label
        self.inputs = inputs
        self.note = note


class Stats:
    def __init__(self):
        self.paths = 0
        self.paths_completed = 0
        self.queries = 0
        self.solver_s = 0.0
        self.checks = 0
        self.checks_solver = 0
        self.discharged = 0
        self.inconclusive = 0
        self.aborted = {}
        self.reached = {}     # label -> number of paths that reached the check
        self.notes = []

    def as_dict(self):
        return dict(paths=self.paths, paths_completed=self.paths_completed, queries=self.queries,
                    solver_s=round(self.solver_s, 3), checks=self.checks, checks_solver=self.checks_solver,
                    discharged=self.discharged, inconclusive=self.inconclusive, aborted=dict(self.aborted),
                    reached=dict(self.reached), notes=self.notes[:20])


class Explorer:
    symbolic = True

    def __init__(self, rlimit=30_000_000, max_paths=100000, max_decisions=3000, max_violations=1,
                 deadline_s=None, known=None, seed=0, cap=None, collision_free=False, uniform=None):
        self.cap = cap
        self.uniform = uniform
        self.collision_free = collision_free
        self.query_timeout_ms = 120000
        self.solver = z3.Solver()
        self._last_solver = self.solver
        self.rlimit = rlimit
        self.max_paths = max_paths
        self.max_decisions = max_decisions
        self.max_violations = max_violations
        self.deadline = (time.time() + deadline_s) if deadline_s else None
        self.known = known or {}
        self.seed = seed
        self.stats = Stats()
        self.violations = []
        self.passing_samples = []
        self.want_samples = 2
        self.no_fork = 0
        self._reset_path([], None)

    # -- path state --------------------------------------------------------------------------
    def _reset_path(self, prefix, model):
        self.prefix = prefix
        self.prefix_model = model
        self.decisions = []
        self.decided = {}
        self.div_cache = {}
        self.conc = {}          # term id -> (term, value): terms fixed to a value by concretize() on this path
        self.aff = {}           # term id -> (term, base, a, b): term == a*base + b (see _aff_note)
        self.memo = {}          # per-path memo of pure term-building helpers (see memo())
        self.pc = []
        self._model = None
        self._model_pc_len = 0
        self.model = None if prefix else model
        self.inputs = []       # (name, kind, payload)
        self.fresh = 0
        self.path_checks = 0
        self.path_notes = []
        self.uf_apps = []

    def fresh_name(self, stem):
        self.fresh += 1
        return "%s!%d" % (stem, self.fresh)

    def _solve(self, extra=None, fresh=False):
        if self.deadline and time.time() > self.deadline:
            self.stats.inconclusive += 1
            self.stats.notes.append("time budget exhausted inside a path")
            raise SolverUnknown("deadline")
        assumptions = list(self.pc)
        if extra is not None:
            assumptions.append(extra)
        self.solver.set("rlimit", self.rlimit)
        self.solver.set("timeout", self.query_timeout_ms)
        t = time.time()
        if fresh:
            r = z3.unknown
        else:
            r = self.solver.check(*assumptions)
            self._last_solver = self.solver
        if r == z3.unknown:
            # assertion queries (and feasibility queries the incremental core gave up on) go to a fresh solver with full
            # preprocessing, then to the integer-blasting bit-vector engine
            for cfg in ({}, {"smt.bv.solver": 2}):
                s2 = z3.Solver()
                for k, v in cfg.items():
                    s2.set(k, v)
                s2.set("rlimit", self.rlimit)
                s2.set("timeout", min(self.query_timeout_ms, 20000))
                s2.add(*assumptions)
                r = s2.check()
                if r != z3.unknown:
                    self._last_solver = s2
                    break
            if r == z3.unknown and fresh:
                # last resort for assertion queries: cvc5 with the integer encoding of bit-vector arithmetic
                # (decides linear identities that defeat bit-blasting); only an `unsat` answer is used
                if _cvc5_unsat(assumptions, self.query_timeout_ms // 2000):
                    self.stats.notes.append("a query was discharged by cvc5 --solve-bv-as-int=sum after z3 returned unknown")
                    r = z3.unsat
        self.stats.solver_s += time.time() - t
        self.stats.queries += 1
        if SITES is not None and time.time() - t > 3:
            import sys as _s
            f = _s._getframe(1)
            chain = []
            while f is not None and len(chain) < 4:
                fn = f.f_code.co_filename
                if '/symx/' not in fn:
                    chain.append('%s:%d' % (fn.split('/')[-1], f.f_lineno))
                f = f.f_back
            print('SLOW %.1fs %s fresh=%s extra=%s :: %s' % (time.time() - t, r, fresh, str(extra)[:200].replace(chr(10), ' '), ' < '.join(chain)), file=_s.stderr)
        return r

    @property
    def model(self):
        return self._model

    @model.setter
    def model(self, m):
        self._model = m
        self._model_pc_len = len(self.pc) if m is not None else 0

    def _ensure_model(self):
        if self._model is not None and self._model_pc_len < len(self.pc):
            # conjuncts were appended since the model was obtained: keep it only if it satisfies them too
            ok = True
            for cj in self.pc[self._model_pc_len:]:
                try:
                    v = self._model.eval(cj, model_completion=True)
                    if not (z3.is_true(v) or z3.is_true(z3.simplify(v))):
                        ok = False
                        break
                except Exception:
                    ok = False
                    break
            if ok:
                self._model_pc_len = len(self.pc)
            else:
                self._model = None
        if self.model is None:
            r = self._solve()
            if r == z3.sat:
                self.model = self._last_solver.model()
            elif r == z3.unsat:
                raise AssumeFailed("path condition infeasible")
            else:
                raise SolverUnknown("model")
        return self.model

    def _holds_in_model(self, e):
        m = self._ensure_model()
        v = m.eval(e, model_completion=True)
        if z3.is_true(v):
            return True
        if z3.is_false(v):
            return False
        v = z3.simplify(v)
        if z3.is_true(v):
            return True
        if z3.is_false(v):
            return False
        raise EngineError("model evaluation not concrete: %s" % v)

    # -- decisions ---------------------------------------------------------------------------
    def branch(self, e):
        e = z3.simplify(e)
        if z3.is_true(e):
            return True
        if z3.is_false(e):
            return False
        if self.no_fork:
            raise SpecFail()
        # a condition already decided on this path (same hash-consed term, or its negation) needs no new decision
        eid = e.get_id()
        known = self.decided.get(eid)
        if known is not None:
            return known
        if z3.is_not(e):
            known = self.decided.get(e.arg(0).get_id())
            if known is not None:
                return not known
        i = len(self.decisions)
        if i < len(self.prefix):
            val = self.prefix[i]
            if not isinstance(val, bool):
                raise EngineError("non-deterministic re-execution (bool decision expected)")
            self.decisions.append(val)
            self.pc.append(e if val else z3.Not(e))
            self.decided[eid] = val
            if i == len(self.prefix) - 1:
                self.model = self.prefix_model
                self._model_pc_len = 0      # validate a resumed model against the whole re-built path condition
            return val
        if i >= self.max_decisions:
            raise UnwindExceeded("more than %d decisions on one path" % self.max_decisions)
        if SITES is not None:
            _note_site()
        val = self._holds_in_model(e)
        if PARANOID:
            chk = z3.Solver()
            chk.add(*self.pc)
            chk.add(e if val else z3.Not(e))
            if chk.check() == z3.unsat:
                import traceback
                m = self.model
                for j, cj in enumerate(self.pc):
                    vj = m.eval(cj, model_completion=True)
                    if not z3.is_true(z3.simplify(vj)):
                        print("PC conjunct %d/%d violated by the cached model: %s" % (j, len(self.pc), str(cj)[:400]))
                        break
                traceback.print_stack(limit=12)
                raise EngineError("stale model: chosen side infeasible at decision %d" % i)
        other = z3.Not(e) if val else e
        r = self._solve(other)
        if r == z3.sat:
            self.work.append((self.decisions + [not val], self._last_solver.model()))
        elif r != z3.unsat:
            self.stats.inconclusive += 1
            self.stats.notes.append("unknown feasibility at decision %d" % i)
        self.decisions.append(val)
        self.pc.append(e if val else z3.Not(e))
        self.decided[eid] = val
        return val

    def choose(self, name, options):
        """harness-level case split over a finite list (no solver involved)"""
        options = list(options)
        if not options:
            raise AssumeFailed("empty choice")
        i = len(self.decisions)
        if i < len(self.prefix):
            idx = self.prefix[i]
            if isinstance(idx, bool) or not isinstance(idx, int):
                raise EngineError("non-deterministic re-execution (choice expected)")
            if i == len(self.prefix) - 1:
                self.model = self.prefix_model
                self._model_pc_len = 0      # validate a resumed model against the whole re-built path condition
        else:
            idx = 0
            for j in range(len(options) - 1, 0, -1):
                self.work.append((self.decisions + [j], None))
        self.decisions.append(idx)
        v = options[idx]
        self.inputs.append((name, "choice", v))
        return v

    def concretize(self, x, limit=70000):
        """fork over the feasible values of x: one decision, values found by the solver"""
        if isinstance(x, SymBool):
            return bool(x)
        if not isinstance(x, SymInt):
            return x
        if self.no_fork:
            raise SpecFail()
        i = len(self.decisions)
        w = x.e.size()
        if i < len(self.prefix):
            d = self.prefix[i]
            if not (isinstance(d, tuple) and d[0] == "v"):
                raise EngineError("non-deterministic re-execution (value decision expected)")
            v = d[1]
            self.decisions.append(d)
            self.pc.append(x.e == bv(v, w))
            self.conc[x.e.get_id()] = (x.e, v)
            if i == len(self.prefix) - 1:
                self.model = self.prefix_model
                self._model_pc_len = 0      # validate a resumed model against the whole re-built path condition
            return v
        m = self._ensure_model()
        v0 = m.eval(x.e, model_completion=True).as_signed_long()
        # enumerate the other feasible values (blocking clauses), keeping a model for each
        blocked = [x.e != bv(v0, w)]
        others = []
        while True:
            r = self._solve(z3.And(*blocked) if len(blocked) > 1 else blocked[0])
            if r == z3.unsat:
                break
            if r != z3.sat:
                self.stats.inconclusive += 1
                self.stats.notes.append("unknown while enumerating values at decision %d" % i)
                break
            m2 = self._last_solver.model()
            v = m2.eval(x.e, model_completion=True).as_signed_long()
            others.append((v, m2))
            blocked.append(x.e != bv(v, w))
            if len(others) > limit:
                raise EngineError("concretize: more than %d feasible values" % limit)
        for v, m2 in reversed(others):
            self.work.append((self.decisions + [("v", v)], m2))
        self.decisions.append(("v", v0))
        self.pc.append(x.e == bv(v0, w))
        self.conc[x.e.get_id()] = (x.e, v0)
        return v0

    # -- harness API ---------------------------------------------------------------------------
    def assume(self, cond):
        c = truth(cond)
        if not isinstance(c, SymBool):
            if not c:
                raise AssumeFailed("assume(False)")
            return
        e = z3.simplify(c.e)
        if z3.is_true(e):
            return
        if z3.is_false(e):
            raise AssumeFailed("assume(False)")
        self.pc.append(e)
        if self.model is not None:
            try:
                ok = self._holds_in_model(e)
            except EngineError:
                ok = False
            if not ok:
                self.model = None
        if self.model is None:
            self._ensure_model()

    def check(self, cond, label, detail=None):
        self.stats.checks += 1
        self.path_checks += 1
        self.stats.reached[label] = self.stats.reached.get(label, 0) + 1
        c = truth(cond)
        if not isinstance(c, SymBool):
            if c:
                self.stats.discharged += 1
                return True
            self._violation(label, self._ensure_model(), detail)
        e = z3.simplify(c.e)
        if z3.is_true(e):
            self.stats.discharged += 1
            return True
        self.stats.checks_solver += 1
        r = self._solve(z3.Not(e), fresh=True)
        if r == z3.unsat:
            self.stats.discharged += 1
            return True
        if r == z3.sat:
            self._violation(label, self._last_solver.model(), detail)
        self.stats.inconclusive += 1
        self.stats.notes.append("unknown on check %s" % label)
        if len(self.unknown_samples) < 3:
            self.unknown_samples.append((label, self._inputs_from_model(self._ensure_model())))
        raise SolverUnknown(label)

    def known_class(self, name, cond):
        """If finding `name` is listed as known, verify only on the complement of its class."""
        if name in self.known:
            self.known_used.add(name)
            self.assume(sym_not(truth(cond)))

    def note(self, text):
        self.path_notes.append(text)

    def _violation(self, label, model, detail):
        inputs = self._inputs_from_model(model)
        self.violations.append(Violation(label, inputs, detail or ""))
        raise ViolationFound(label)

    def _inputs_from_model(self, model):
        out = {}
        for name, kind, payload in self.inputs:
            out[name] = _eval_input(model, kind, payload)
        return out

    # -- input constructors ----------------------------------------------------------------------
    def sym_int(self, name, lo, hi):
        if lo == hi:
            self.inputs.append((name, "int", lo))
            return lo
        w = need(lo, hi)
        e = z3.BitVec(name, w)
        x = SymInt(e, lo, hi)
        # range constraint (tight unless the interval is the full signed range)
        cs = []
        if lo != -(1 << (w - 1)):
            cs.append(e >= bv(lo, w))
        if hi != (1 << (w - 1)) - 1:
            cs.append(e <= bv(hi, w))
        self.pc.extend(cs)
        if cs and self.model is not None:
            self.model = self.model if all(self._holds_quiet(c) for c in cs) else None
        self.inputs.append((name, "int", x))
        return x

    def _holds_quiet(self, e):
        try:
            return self._holds_in_model(e)
        except EngineError:
            return False

    def sym_bool(self, name):
        b = SymBool(z3.Bool(name))
        self.inputs.append((name, "bool", b))
        return b

    def sym_bytes(self, name, n, kind="bytes", wide=False):
        """n symbolic bytes.  wide=True: one 8n-bit variable sliced into bytes (better for opaque values such as
        hashes that are only moved and compared as a whole)"""
        from .seq import mk_seq, SymSeq
        items = []
        if wide and n > 1:
            whole = z3.BitVec(name, 8 * n)
            for i in range(n):
                hi = 8 * (n - i) - 1
                items.append(SymInt(z3.ZeroExt(1, z3.Extract(hi, hi - 7, whole)), 0, 255))
        for i in range(n if not (wide and n > 1) else 0):
            e = z3.BitVec("%s[%d]" % (name, i), 8)
            items.append(SymInt(z3.ZeroExt(1, e), 0, 255))
        s = SymSeq(kind, items) if n else mk_seq(kind, [])
        self.inputs.append((name, "bytes", s))
        return s

    def sym_str(self, name, n, alphabet=None, lo=0, hi=127):
        """text of n code points; alphabet (a str) restricts every character to that set"""
        from .seq import mk_seq, SymSeq
        items = []
        for i in range(n):
            if alphabet is not None:
                cps = sorted(set(ord(c) for c in alphabet))
                lo_, hi_ = cps[0], cps[-1]
            else:
                lo_, hi_ = lo, hi
            w = need(lo_, hi_)
            e = z3.BitVec("%s[%d]" % (name, i), w)
            x = SymInt(e, lo_, hi_)
            if alphabet is not None and len(cps) != hi_ - lo_ + 1:
                self.pc.append(z3.Or(*[e == bv(c, w) for c in cps]))
            else:
                self.pc.append(z3.And(e >= bv(lo_, w), e <= bv(hi_, w)))
            items.append(x)
        self.model = None
        s = SymSeq("str", items) if n else ""
        self.inputs.append((name, "str", s))
        return s

    def record_input(self, name, kind, payload):
        self.inputs.append((name, kind, payload))

    # -- driver ----------------------------------------------------------------------------------
    def run(self, fn):
        global CUR, CAP, UNI
        CUR = self
        CAP = self.cap
        UNI = self.uniform
        self.work = [([], None)]
        self.known_used = set()
        self.unknown_samples = []
        self.crashes = []
        st = self.stats
        try:
            while self.work:
                if st.paths >= self.max_paths:
                    st.inconclusive += 1
                    st.notes.append("path budget %d exhausted with %d pending" % (self.max_paths, len(self.work)))
                    break
                if self.deadline and time.time() > self.deadline:
                    st.inconclusive += 1
                    st.notes.append("time budget exhausted with %d pending" % len(self.work))
                    break
                prefix, model = self.work.pop()
                self._reset_path(prefix, model)
                st.paths += 1
                try:
                    fn(self)
                    st.paths_completed += 1
                    if self.path_checks and len(self.passing_samples) < self.want_samples:
                        try:
                            self.passing_samples.append(self._inputs_from_model(self._ensure_model()))
                        except PathAbort:
                            pass
                except ViolationFound:
                    st.aborted["violation"] = st.aborted.get("violation", 0) + 1
                    if len(self.violations) >= self.max_violations:
                        break
                except PathAbort as e:
                    st.aborted[e.kind] = st.aborted.get(e.kind, 0) + 1
                    if e.kind in ("unwind",):
                        st.inconclusive += 1
                        st.notes.append("UNWIND-EXCEEDED: %s" % e)
                    elif e.kind == "unknown":
                        pass
                except SpecFail:
                    raise EngineError("SpecFail escaped")
        finally:
            CUR = None
            CAP = None
            UNI = None
        return self


def _eval_input(model, kind, payload):
    from .seq import SymSeq
    if kind == "choice":
        return _plain(payload)
    if isinstance(payload, SymInt):
        return model.eval(payload.e, model_completion=True).as_signed_long()
    if isinstance(payload, SymBool):
        return bool(z3.is_true(model.eval(payload.e, model_completion=True)))
    if isinstance(payload, SymSeq):
        vals = [it if isinstance(it, int) else model.eval(it.e, model_completion=True).as_signed_long()
                for it in payload.items]
        if payload.kind == "str":
            return {"str": "".join(chr(v) for v in vals)}
        return {"hex": bytes(vals).hex()}
    return _plain(payload)


def _plain(v):
    if isinstance(v, (bytes, bytearray)):
        return {"hex": bytes(v).hex()}
    if isinstance(v, str):
        return {"str": v}
    if isinstance(v, (list, tuple)):
        return [_plain(x) for x in v]
    if isinstance(v, dict):
        return {str(k): _plain(x) for k, x in v.items()}
    if isinstance(v, (int, bool)) or v is None:
        return v
    return repr(v)


# ----------------------------------------------------------------------------------------
# Concrete context: same harness API on plain values (replay, reference-model validation)

class ConcreteCtx:
    symbolic = False

    def __init__(self, inputs, known=None):
        self.inputs_given = inputs
        self.failed = []
        self.passed = []
        self.known = known or {}
        self.known_hit = []
        self.path_notes = []

    def _get(self, name, default=None):
        if name not in self.inputs_given:
            raise EngineError("replay file has no input %r" % name)
        v = self.inputs_given[name]
        return _unplain(v)

    def sym_int(self, name, lo, hi):
        v = self._get(name)
        if not (lo <= v <= hi):
            raise AssumeFailed("input %s out of range" % name)
        return v

    def sym_bool(self, name):
        return bool(self._get(name))

    def sym_bytes(self, name, n, kind="bytes", wide=False):
        v = self._get(name)
        if len(v) != n:
            raise AssumeFailed("input %s has wrong length" % name)
        return bytearray(v) if kind == "bytearray" else v

    def sym_str(self, name, n, alphabet=None, lo=0, hi=127):
        v = self._get(name)
        if len(v) != n:
            raise AssumeFailed("input %s has wrong length" % name)
        return v

    def choose(self, name, options):
        v = self._get(name)
        for o in options:
            if _plain(o) == _plain(v) or o == v:
                return o
        raise AssumeFailed("choice %s=%r not among options" % (name, v))

    def record_input(self, name, kind, payload):
        pass

    def concretize(self, x):
        return x

    def assume(self, cond):
        if not cond:
            raise AssumeFailed("assume(False)")

    def check(self, cond, label, detail=None):
        if cond:
            self.passed.append(label)
            return True
        self.failed.append(label)
        raise ViolationFound(label)

    def known_class(self, name, cond):
        if cond:
            self.known_hit.append(name)

    def note(self, text):
        self.path_notes.append(text)

    def fresh_name(self, stem):
        return stem


class RandomCtx(ConcreteCtx):
    """concrete candidates for refuting an obligation the solver left undecided (never used to pass one)"""

    def __init__(self, rnd):
        ConcreteCtx.__init__(self, {})
        self.rnd = rnd
        self.drawn = {}

    def _rec(self, name, v):
        self.drawn[name] = _plain(v)
        return v

    def sym_int(self, name, lo, hi):
        r = self.rnd
        k = r.random()
        if k < 0.15:
            v = r.choice([lo, hi, min(hi, max(lo, 0)), min(hi, lo + 1), max(lo, hi - 1)])
        elif k < 0.4 and hi - lo > 300:
            v = min(hi, max(lo, r.choice([1, -1]) * r.getrandbits(r.randrange(1, max(2, (hi - lo).bit_length())))))
        else:
            v = r.randint(lo, hi)
        return self._rec(name, v)

    def sym_bool(self, name):
        return self._rec(name, self.rnd.random() < 0.5)

    def sym_bytes(self, name, n, kind="bytes", wide=False):
        r = self.rnd
        mode = r.random()
        if mode < 0.1:
            b = bytes([r.choice([0, 0xFF, 0x80, 0x7F])] * n)
        else:
            b = bytes(r.getrandbits(8) for _ in range(n))
        self._rec(name, b)
        return bytearray(b) if kind == "bytearray" else b

    def sym_str(self, name, n, alphabet=None, lo=0, hi=127):
        r = self.rnd
        if alphabet is not None:
            v = "".join(r.choice(alphabet) for _ in range(n))
        else:
            v = "".join(chr(r.randint(lo, hi)) for _ in range(n))
        return self._rec(name, v)

    def choose(self, name, options):
        options = list(options)
        v = self.rnd.choice(options)
        self._rec(name, v)
        return v


def refute_by_candidates(fn, seed, budget_s=20.0, max_tries=400):
    """-> Violation or None"""
    import random
    rnd = random.Random(seed)
    t0 = time.time()
    tries = 0
    while tries < max_tries and time.time() - t0 < budget_s:
        tries += 1
        ctx = RandomCtx(rnd)
        try:
            fn(ctx)
        except ViolationFound:
            return Violation(ctx.failed[-1], dict(ctx.drawn), "found by concrete candidate after solver returned unknown"), tries
        except PathAbort:
            continue
        except EngineError:
            continue
        except Exception:
            continue
    return None, tries


def _unplain(v):
    if isinstance(v, dict) and set(v) == {"hex"}:
        return bytes.fromhex(v["hex"])
    if isinstance(v, dict) and set(v) == {"str"}:
        return v["str"]
    if isinstance(v, list):
        return [_unplain(x) for x in v]
    return v
