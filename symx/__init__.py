"""symx - bounded symbolic execution of real Python code on z3 proxy values.

The package is importable without z3 (the replay path runs under /venv/bin/python,
which has no solver); only symbolic exploration needs it.
"""
