"""symx.loader - serve pycoin.* from /repo's *current* source, lightly rewritten so that the
real code runs on proxy values.  Installed only in the checker process."""
from __future__ import annotations

import ast
import importlib.abc
import importlib.machinery
import importlib.util
import os
import sys

from . import builtins_ as B
from .shims import struct_shim, binascii_shim, io_shim, hashlib_shim, hmac_shim

REPO = os.environ.get("VERIF_REPO", "/repo")

SHIMS = {
    "struct": struct_shim,
    "binascii": binascii_shim,
    "io": io_shim,
    "hashlib": hashlib_shim,
    "hmac": hmac_shim,
}

LOADED = {}  # module name -> source path (for evidence: which files were encoded)


def _import_hook(name, globals=None, locals=None, fromlist=(), level=0):
    if level == 0 and name in SHIMS:
        return SHIMS[name]
    return _real_import(name, globals, locals, fromlist, level)


import builtins as _b
_real_import = _b.__import__
PRIVATE_BUILTINS = B.make_builtins(_import_hook)


def _pure(node):
    """expression with no calls / comprehensions / awaits - safe to evaluate speculatively"""
    for n in ast.walk(node):
        if isinstance(n, (ast.Call, ast.ListComp, ast.SetComp, ast.DictComp, ast.GeneratorExp, ast.Await,
                          ast.Yield, ast.YieldFrom, ast.NamedExpr, ast.Lambda)):
            return False
    return True


class Rewriter(ast.NodeTransformer):
    def __init__(self):
        self.in_raise = 0

    def visit_IfExp(self, node):
        pure = _pure(node.body) and _pure(node.orelse)
        self.generic_visit(node)
        if pure:
            return ast.copy_location(ast.Call(
                func=ast.Name(id="__symx_ite__", ctx=ast.Load()),
                args=[node.test,
                      ast.Lambda(args=_noargs(), body=node.body),
                      ast.Lambda(args=_noargs(), body=node.orelse)],
                keywords=[]), node)
        return node

    def visit_Subscript(self, node):
        self.generic_visit(node)
        if isinstance(node.ctx, ast.Load) and isinstance(node.slice, ast.Slice):
            sl = node.slice
            parts = [p if p is not None else ast.Constant(value=None) for p in (sl.lower, sl.upper, sl.step)]
            if all(isinstance(p, ast.Constant) for p in parts):
                return node
            idx = ast.Call(func=ast.Name(id="__symx_slice__", ctx=ast.Load()), args=parts, keywords=[])
            return ast.copy_location(ast.Call(
                func=ast.Name(id="__symx_sub__", ctx=ast.Load()),
                args=[node.value, idx], keywords=[]), node)
        if isinstance(node.ctx, ast.Load) and not isinstance(node.slice, (ast.Slice, ast.Tuple)):
            if isinstance(node.slice, ast.Constant):
                return node
            return ast.copy_location(ast.Call(
                func=ast.Name(id="__symx_sub__", ctx=ast.Load()),
                args=[node.value, node.slice], keywords=[]), node)
        return node

    def visit_BinOp(self, node):
        self.generic_visit(node)
        if isinstance(node.op, ast.Mod) and isinstance(node.left, ast.Constant) and isinstance(node.left.value, (str, bytes)):
            return ast.copy_location(ast.Call(
                func=ast.Name(id="__symx_mod__", ctx=ast.Load()),
                args=[node.left, node.right], keywords=[]), node)
        return node

    def visit_Call(self, node):
        self.generic_visit(node)
        f = node.func
        if isinstance(f, ast.Name) and f.id == "super" and len(node.args) == 2 and not node.keywords:
            return ast.copy_location(ast.Call(func=ast.Name(id="__symx_super__", ctx=ast.Load()), args=node.args, keywords=[]), node)
        if isinstance(f, ast.Attribute) and f.attr == "join" and len(node.args) == 1 and not node.keywords:
            return ast.copy_location(ast.Call(
                func=ast.Name(id="__symx_join__", ctx=ast.Load()),
                args=[f.value, node.args[0]], keywords=[]), node)
        if isinstance(f, ast.Attribute) and f.attr in ("find", "rfind", "index", "startswith", "endswith", "count") and 1 <= len(node.args) <= 3 and not node.keywords:
            return ast.copy_location(ast.Call(
                func=ast.Name(id="__symx_strmeth__", ctx=ast.Load()),
                args=[f.value, ast.Constant(value=f.attr)] + node.args, keywords=[]), node)
        if isinstance(f, ast.Attribute) and f.attr == "get" and 1 <= len(node.args) <= 2 and not node.keywords:
            return ast.copy_location(ast.Call(
                func=ast.Name(id="__symx_get__", ctx=ast.Load()),
                args=[f.value] + node.args, keywords=[]), node)
        if isinstance(f, ast.Attribute) and f.attr == "format" and isinstance(f.value, ast.Constant) \
                and isinstance(f.value.value, str):
            return ast.copy_location(ast.Call(
                func=ast.Name(id="__symx_format__", ctx=ast.Load()),
                args=[f.value] + node.args, keywords=node.keywords), node)
        return node

    def visit_Dict(self, node):
        self.generic_visit(node)
        if not node.keys:
            return ast.copy_location(ast.Call(func=ast.Name(id="__symx_dict__", ctx=ast.Load()), args=[], keywords=[]), node)
        return node

    def visit_Compare(self, node):
        self.generic_visit(node)
        if len(node.ops) == 1 and isinstance(node.ops[0], (ast.In, ast.NotIn)):
            call = ast.copy_location(ast.Call(
                func=ast.Name(id="__symx_in__", ctx=ast.Load()),
                args=[node.left, node.comparators[0]], keywords=[]), node)
            if isinstance(node.ops[0], ast.NotIn):
                return ast.copy_location(ast.UnaryOp(op=ast.Not(), operand=call), node)
            return call
        return node

    def visit_Raise(self, node):
        # message expressions: no forks, opaque text allowed
        self.generic_visit(node)
        if isinstance(node.exc, ast.Call):
            new_args = []
            for a in node.exc.args:
                if isinstance(a, ast.Constant) or isinstance(a, ast.Name):
                    new_args.append(a)
                else:
                    new_args.append(ast.copy_location(ast.Call(
                        func=ast.Name(id="__symx_msg__", ctx=ast.Load()),
                        args=[ast.Lambda(args=_noargs(), body=a)], keywords=[]), a))
            node.exc.args = new_args
        return node


def _noargs():
    return ast.arguments(posonlyargs=[], args=[], vararg=None, kwonlyargs=[], kw_defaults=[], kwarg=None, defaults=[])


def transform_source(src, filename):
    tree = ast.parse(src, filename)
    tree = Rewriter().visit(tree)
    ast.fix_missing_locations(tree)
    return compile(tree, filename, "exec", dont_inherit=True)


class _Loader(importlib.abc.Loader):
    def __init__(self, path, is_pkg):
        self.path = path
        self.is_pkg = is_pkg

    def create_module(self, spec):
        return None

    def exec_module(self, module):
        with open(self.path, "r", encoding="utf8") as f:
            src = f.read()
        code = transform_source(src, self.path)
        module.__dict__["__builtins__"] = PRIVATE_BUILTINS
        LOADED[module.__name__] = self.path
        exec(code, module.__dict__)

    def get_source(self, name):
        with open(self.path) as f:
            return f.read()


class Finder(importlib.abc.MetaPathFinder):
    def find_spec(self, fullname, path, target=None):
        if fullname != "pycoin" and not fullname.startswith("pycoin."):
            return None
        rel = fullname.replace(".", "/")
        pkg = os.path.join(REPO, rel, "__init__.py")
        mod = os.path.join(REPO, rel + ".py")
        if os.path.isfile(pkg):
            spec = importlib.machinery.ModuleSpec(fullname, _Loader(pkg, True), origin=pkg, is_package=True)
            spec.submodule_search_locations = [os.path.dirname(pkg)]
            return spec
        if os.path.isfile(mod):
            return importlib.machinery.ModuleSpec(fullname, _Loader(mod, False), origin=mod)
        return None


_installed = False


def install():
    global _installed
    if _installed:
        return
    for k in list(sys.modules):
        if k == "pycoin" or k.startswith("pycoin."):
            raise RuntimeError("pycoin imported before symx.loader.install()")
    os.environ.setdefault("PYCOIN_NATIVE", "none")
    sys.meta_path.insert(0, Finder())
    _installed = True


def installed():
    return _installed


def encoded_files():
    return sorted(os.path.relpath(p, REPO) for p in LOADED.values())
