"""Helpers for harnesses and reference models; every function works on plain values too."""
from __future__ import annotations

import importlib

from .core import (ite, truth, sym_and, sym_or, sym_not, sym_implies, is_sym, SymInt, SymBool, EngineError,  # noqa
                   AssumeFailed, PathAbort)
from .seq import mk_seq, items_of, SymSeq, SymDict, SymList, seq_eq  # noqa
from .runner import Ob  # noqa


def imp(name):
    return importlib.import_module(name)


def B(items):
    """bytes from a list of ints / symbolic bytes"""
    return mk_seq("bytes", list(items))


def S(items):
    return mk_seq("str", list(items))


def cat(*parts):
    out = []
    for p in parts:
        out.extend(items_of(p))
    return mk_seq("bytes", out)


def le(v, n):
    """n-byte little-endian encoding of a non-negative (possibly symbolic) integer < 256**n"""
    return mk_seq("bytes", [(v >> (8 * i)) & 0xFF for i in range(n)])


def be(v, n):
    return mk_seq("bytes", [(v >> (8 * (n - 1 - i))) & 0xFF for i in range(n)])


def from_le(b):
    r = 0
    for i, it in enumerate(items_of(b)):
        r = r + (it << (8 * i))
    return r


def from_be(b):
    r = 0
    for it in items_of(b):
        r = (r << 8) + it
    return r


def eq(a, b):
    """equality as bool/SymBool that never raises on type mismatch"""
    if isinstance(a, (list, tuple)) and isinstance(b, (list, tuple)):
        if len(a) != len(b):
            return False
        return sym_and(*[eq(x, y) for x, y in zip(a, b)])
    if a is None or b is None:
        return a is b
    r = (a == b)
    return r


def tier():
    import os
    return os.environ.get("VERIF_TIER", "quick")
