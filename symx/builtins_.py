"""Proxy-aware replacements for the builtins that instrumented modules see.

For concrete arguments every function defers to the real builtin, so an instrumented module
fed concrete values behaves exactly like the original (checked by the fidelity self-test).
"""
from __future__ import annotations

import builtins as _b

from . import core
from .core import SymInt, SymBool, EngineError, ite, truth
from .seq import SymSeq, mk_seq, items_of, sym_index, hex_items, _byte, SymDict, SymSet, is_symkey, deep_eq


class _NullSuper:
    """what super(str, self) is for a symbolic instance of a str/bytes subclass: nothing to initialise"""

    def __getattr__(self, name):
        return lambda *a, **k: None


def rt_super(t, obj):
    if isinstance(obj, SymSeq):
        return _NullSuper()
    if isinstance(t, _SubclassProxy):
        t = t.real
    else:
        t = getattr(t, "_symx_real", t)
    return super(t, obj)


class _SubclassProxy:
    """stands for `class X(bytes)` / `class X(str)` declared in an instrumented module"""

    def __init__(self, real):
        self.real = real
        self.__name__ = real.__name__
        self.sym_cls = None

    def _sym(self, x):
        if self.sym_cls is None:
            ns = {k: v for k, v in self.real.__dict__.items()
                  if k not in ("__new__", "__dict__", "__weakref__", "__doc__", "__module__", "__init__")}
            self.sym_cls = type(self.real.__name__ + "_sym", (SymSeq,), ns)
        if isinstance(x, self.sym_cls):
            return x
        obj = SymSeq.__new__(self.sym_cls)
        SymSeq.__init__(obj, x.kind, list(x.items), self)
        init = self.real.__dict__.get("__init__")
        if init is not None:
            init(obj, x)
        return obj

    def __call__(self, x=b"", *a):
        if isinstance(x, SymSeq):
            if x.concrete() and x.kind in ("bytes", "str"):
                return self.real(x.to_concrete())
            custom = [k for k in self.real.__dict__ if k not in ("__new__", "__dict__", "__weakref__", "__doc__", "__module__", "__str__", "__repr__")]
            if custom:
                return self._sym(x)
            return SymSeq(x.kind, list(x.items), tag=self)
        return self.real(x, *a)

    def __instancecheck__(self, x):
        return isinstance(x, self.real) or (isinstance(x, SymSeq) and x.tag is self)

    def __getattr__(self, name):
        return getattr(self.real, name)


class _Meta(type):
    def __new__(mcs, name, bases, ns, **kw):
        if ns.get("_symx_root"):
            return super().__new__(mcs, name, bases, ns)
        # `class bytes_as_hex(bytes):` inside an instrumented module
        real_bases = tuple(getattr(b, "_symx_real", b) for b in bases)
        ns = dict(ns)
        real = type(name, real_bases, ns)
        return _SubclassProxy(real)

    def __instancecheck__(cls, x):
        return cls._symx_check(x)

    def __subclasscheck__(cls, c):
        return issubclass(c, cls._symx_real)

    def __call__(cls, *a, **k):
        return cls._symx_call(*a, **k)

    def __or__(cls, other):
        return cls._symx_real | getattr(other, "_symx_real", other)

    def __ror__(cls, other):
        return getattr(other, "_symx_real", other) | cls._symx_real

    def __getitem__(cls, item):
        return cls._symx_real[item]

    def __eq__(cls, other):
        return other is cls or other is cls._symx_real

    def __hash__(cls):
        return hash(cls._symx_real)

    def __repr__(cls):
        return repr(cls._symx_real)


# ---- int ---------------------------------------------------------------------------------------

def _int_call(x=0, base=None):
    if base is None:
        if isinstance(x, SymInt):
            return x
        if isinstance(x, SymBool):
            return x._int()
        if isinstance(x, SymSeq):
            return parse_int(x, 10)
        return _b.int(x)
    if isinstance(x, SymSeq):
        return parse_int(x, base)
    return _b.int(x, base)


def parse_int(s, base):
    items = list(s.items)
    if len(items) > 8:
        return core.memo("int%d%s" % (base, s.kind), items, lambda: _parse_int(s, base))
    return _parse_int(s, base)


def _parse_int(s, base):
    """int(text, base) for symbolic text: optional surrounding blanks are NOT modelled
    (EngineError if they can occur); sign, 0x/0o/0b prefix for the given base, underscores
    between digits are."""
    c = core.cur()
    items = list(s.items)
    kind = s.kind
    if base not in (10, 16, 2, 8):
        raise EngineError("int(sym, %r) not modelled" % (base,))
    # whitespace strip as int() does (str: unicode spaces; we model ASCII set)
    from .seq import _is_space
    while items and _b.bool(truth(_is_space(items[0]))):
        items.pop(0)
    while items and _b.bool(truth(_is_space(items[-1]))):
        items.pop()
    neg = False
    if items and _b.bool(truth(items[0] == 45)):
        neg = True
        items.pop(0)
    elif items and _b.bool(truth(items[0] == 43)):
        items.pop(0)
    pref = {16: (120, 88), 8: (111, 79), 2: (98, 66)}.get(base)
    if pref and len(items) >= 2 and _b.bool(truth(items[0] == 48)) and _b.bool(truth(core.sym_or(items[1] == pref[0], items[1] == pref[1]))):
        items = items[2:]
        if items and _b.bool(truth(items[0] == 95)):
            items.pop(0)
    if not items:
        raise ValueError("invalid literal for int()")
    if base == 10:
        from .seq import dec_source
        src = dec_source(items)
        if src is not None:
            return -src if neg else src
    syms = [it for it in items if not isinstance(it, _b.int)]
    if len(syms) > 2 and all(it.hi < 128 for it in syms):
        # many symbolic characters: decide "no underscore" and "every character is a digit" as ONE decision each instead of one per
        # character (the ValueError does not depend on which character is the offender)
        any_us = core.sym_or(*[it == 95 for it in items])
        if not _b.bool(truth(any_us)):
            if not _b.bool(truth(core.sym_and(*[_digit_ok(it, base) for it in items]))):
                raise ValueError("invalid literal for int()")
            digs = [_digit_val(it, base) for it in items]
            if base == 10 and len(digs) >= 20:
                # long decimal literal: case-split on the number of leading zeros (one multi-way decision), so that the value's
                # interval [10**(m-1), 10**m) is known exactly and magnitude comparisons need no wide multiplication chain
                n = len(digs)
                lz = n
                for k in range(n - 1, -1, -1):
                    lz = ite(digs[k] != 0, k, lz)
                k = c.concretize(lz)
                digs = digs[k:]
                v = 0
                for d in digs:
                    v = v * base + d
                if digs and not isinstance(v, _b.int):
                    v = core.mk_int(v.e, base ** (len(digs) - 1), base ** len(digs) - 1)
                return -v if neg else v
            v = 0
            for d in digs:
                v = v * base + d
            return -v if neg else v
    v = 0
    prev_us = True  # an underscore may not lead
    for idx, it in enumerate(items):
        if _b.bool(truth(it == 95)):
            if prev_us or idx == len(items) - 1:
                raise ValueError("invalid literal for int()")
            prev_us = True
            continue
        prev_us = False
        d = _digit_value(it, base)
        v = v * base + d
    return -v if neg else v


def _digit_ok(it, base):
    if isinstance(it, _b.int):
        try:
            _b.int(chr(it), base)
            return True
        except ValueError:
            return False
    is_dec = core.sym_and(it >= 48, it <= min(57, 48 + base - 1))
    if base <= 10:
        return is_dec
    return core.sym_or(is_dec, core.sym_and(it >= 97, it <= 97 + base - 11), core.sym_and(it >= 65, it <= 65 + base - 11))


def _digit_val(it, base):
    """digit value of a code unit already known to be a digit (no fork)"""
    if isinstance(it, _b.int):
        return _b.int(chr(it), base)
    if base == 16:
        from .seq import hex_source
        src = hex_source(it)
        if src is not None:
            return src
    if base <= 10:
        return it - 48
    return ite(it <= 57, it - 48, ite(it >= 97, it - 87, it - 55))


def _digit_value(it, base):
    """digit value of code unit `it` in `base`, raising ValueError on the non-digit branch"""
    if base == 16:
        from .seq import hex_source
        src = hex_source(it)
        if src is not None:
            return src
    if isinstance(it, int):
        ch = chr(it)
        try:
            return _b.int(ch, base)
        except ValueError:
            raise
    is_dec = core.sym_and(it >= 48, it <= min(57, 48 + base - 1))
    if base <= 10:
        if not _b.bool(truth(is_dec)):
            if it.hi >= 128 and _b.bool(truth(it >= 128)):
                raise EngineError("non-ASCII digit candidates are outside the int() model")
            raise ValueError("invalid literal for int()")
        return it - 48
    is_lo = core.sym_and(it >= 97, it <= 97 + base - 11)
    is_up = core.sym_and(it >= 65, it <= 65 + base - 11)
    ok = core.sym_or(is_dec, is_lo, is_up)
    if not _b.bool(truth(ok)):
        if it.hi >= 128 and _b.bool(truth(it >= 128)):
            raise EngineError("non-ASCII digit candidates are outside the int() model")
        raise ValueError("invalid literal for int()")
    return ite(is_dec, it - 48, ite(is_lo, it - 87, it - 55))


def _int_from_bytes(b, byteorder="big", *, signed=False):
    if isinstance(b, SymSeq) or any(not isinstance(i, _b.int) for i in (b if isinstance(b, list) else [])):
        items = list(items_of(b))
        if byteorder == "little":
            items.reverse()
        elif byteorder != "big":
            raise ValueError("byteorder must be either 'little' or 'big'")
        if signed:
            raise EngineError("from_bytes(signed=True) on symbolic bytes")
        import z3
        if not items:
            return 0
        e = core.concat_bytes(items)
        n = 8 * len(items)
        return core.mk_int(z3.ZeroExt(1, e), 0, (1 << n) - 1)
    return _b.int.from_bytes(b, byteorder, signed=signed)


class int_(metaclass=_Meta):
    _symx_root = True

    def __new__(cls, *a, **k):
        return _b.int.__new__(cls, *a, **k)

    _symx_real = _b.int
    _symx_check = staticmethod(lambda x: isinstance(x, (_b.int, SymInt, SymBool)))
    _symx_call = staticmethod(_int_call)
    from_bytes = staticmethod(_int_from_bytes)
    to_bytes = staticmethod(lambda v, *a, **k: v.to_bytes(*a, **k))
    bit_length = staticmethod(lambda v: v.bit_length())


# ---- bool ----------------------------------------------------------------------------------------

def bool_(x=False):
    return _b.bool(x)


# ---- bytes / bytearray -----------------------------------------------------------------------------

def _seq_ctor(kind):
    real = _b.bytes if kind == "bytes" else _b.bytearray

    def ctor(x=b"", *a):
        if a:
            if isinstance(x, SymSeq):
                return x.encode(*a)
            r = real(x, *a)
            return SymSeq("bytearray", list(r)) if kind == "bytearray" else r
        if isinstance(x, SymSeq):
            if x.kind == "str":
                raise TypeError("string argument without an encoding")
            return mk_seq(kind, list(x.items))
        if isinstance(x, (SymInt, SymBool)):
            n = core.cur().concretize(x)
            return mk_seq(kind, [0] * n)
        if isinstance(x, (_b.bytes, _b.bytearray, _b.int, memoryview)):
            r = real(x)
            return SymSeq("bytearray", list(r)) if kind == "bytearray" else r
        if isinstance(x, _b.str):
            raise TypeError("string argument without an encoding")
        # iterable of ints (possibly symbolic)
        items = [_byte(v) for v in x]
        return mk_seq(kind, items)
    return ctor


def _fromhex(kind):
    def f(s):
        from .shims import binascii_shim
        if isinstance(s, SymSeq):
            # bytes.fromhex skips ASCII whitespace between bytes; not modelled for symbolic text
            return mk_seq(kind, items_of(binascii_shim.unhexlify(s, _for_fromhex=True)))
        r = _b.bytes.fromhex(s)
        return SymSeq("bytearray", list(r)) if kind == "bytearray" else r
    return f


class bytes_(metaclass=_Meta):
    _symx_root = True

    def __new__(cls, *a, **k):
        return _b.bytes.__new__(cls, *a, **k)

    _symx_real = _b.bytes
    _symx_check = staticmethod(lambda x: isinstance(x, _b.bytes) or (isinstance(x, SymSeq) and x.kind == "bytes"))
    _symx_call = staticmethod(_seq_ctor("bytes"))
    fromhex = staticmethod(_fromhex("bytes"))
    join = staticmethod(lambda sep, parts: join_(sep, parts))
    maketrans = _b.bytes.maketrans


class bytearray_(metaclass=_Meta):
    _symx_root = True

    def __new__(cls, *a, **k):
        return _b.bytearray.__new__(cls, *a, **k)

    _symx_real = _b.bytearray
    _symx_check = staticmethod(lambda x: isinstance(x, _b.bytearray) or (isinstance(x, SymSeq) and x.kind == "bytearray"))
    _symx_call = staticmethod(_seq_ctor("bytearray"))
    fromhex = staticmethod(_fromhex("bytearray"))


# ---- str ---------------------------------------------------------------------------------------------

def _str_call(x="", *a):
    if a:
        if isinstance(x, SymSeq):
            return x.decode(*a)
        return _b.str(x, *a)
    if isinstance(x, SymSeq):
        if x.kind == "str":
            return x
        if x.tag is not None and "__str__" in x.tag.real.__dict__:
            return _call_tag_method(x, "__str__")
        return repr(x)
    if isinstance(x, SymInt):
        return dec_str(x)
    if isinstance(x, SymBool):
        return "True" if x else "False"
    return _b.str(x)


def _call_tag_method(x, name):
    f = x.tag.real.__dict__[name]
    return f(x)


def dec_str(x, max_digits=80):
    """decimal text of a symbolic int: the number of digits is decided by forking"""
    c = core.cur()
    neg = False
    if x.lo < 0:
        if c.branch((x < 0).e):
            neg = True
            x = -x
            if isinstance(x, _b.int):
                return "-" + _b.str(x)
        elif isinstance(x, SymInt):
            x = core.mk_int(x.e, 0, x.hi)
    if isinstance(x, _b.int):
        return ("-" if neg else "") + _b.str(x)
    nd = 1
    while _b.bool(truth(x >= 10 ** nd)):
        nd += 1
        if nd > max_digits:
            raise EngineError("dec_str: too many digits")
    digits = []
    v = x
    for _ in range(nd):
        digits.append((v % 10) + 48)
        v = v // 10
    digits.reverse()
    from . import seq as _seq
    _seq._gc_src()
    if all(isinstance(d, SymInt) for d in digits):
        for k, d in enumerate(digits):
            _seq.DEC_SRC[d.e.get_id()] = (d.e, x, k, nd)
    if neg:
        digits.insert(0, 45)
    return mk_seq("str", digits)


class str_(metaclass=_Meta):
    _symx_root = True

    def __new__(cls, *a, **k):
        return _b.str.__new__(cls, *a, **k)

    _symx_real = _b.str
    _symx_check = staticmethod(lambda x: isinstance(x, _b.str) or (isinstance(x, SymSeq) and x.kind == "str"))
    _symx_call = staticmethod(_str_call)
    join = staticmethod(lambda sep, parts: join_(sep, parts))
    maketrans = _b.str.maketrans


# ---- functions ---------------------------------------------------------------------------------------

def join_(sep, parts):
    parts = list(parts)
    if isinstance(sep, SymSeq):
        return sep.join(parts)
    if any(isinstance(p, SymSeq) for p in parts):
        kind = "str" if isinstance(sep, _b.str) else ("bytearray" if isinstance(sep, _b.bytearray) else "bytes")
        return SymSeq(kind, items_of(sep)).join(parts) if kind == "bytearray" else _join_mk(kind, sep, parts)
    return sep.join(parts)


def _join_mk(kind, sep, parts):
    out = []
    si = items_of(sep)
    first = True
    for p in parts:
        if not first:
            out.extend(si)
        first = False
        if (kind == "str") != (isinstance(p, _b.str) or (isinstance(p, SymSeq) and p.kind == "str")):
            raise TypeError("sequence item: expected %s instance" % kind)
        out.extend(items_of(p))
    return mk_seq(kind, out)


def ord_(c):
    if isinstance(c, SymSeq):
        if len(c.items) != 1:
            raise TypeError("ord() expected a character, but string of length %d found" % len(c.items))
        return c.items[0]
    return _b.ord(c)


def chr_(i):
    if isinstance(i, (SymInt, SymBool)):
        if isinstance(i, SymBool):
            i = i._int()
        if i.lo < 0 or i.hi > 0x10FFFF:
            if _b.bool(truth(core.sym_or(i < 0, i > 0x10FFFF))):
                raise ValueError("chr() arg not in range(0x110000)")
        return mk_seq("str", [i])
    return _b.chr(i)


def isinstance_(x, t):
    if isinstance(t, tuple):
        return any(isinstance_(x, u) for u in t)
    if isinstance(x, (SymInt, SymBool, SymSeq)):
        if t is _b.int:
            return isinstance(x, (SymInt, SymBool))
        if t is _b.bool:
            return isinstance(x, SymBool)
        if t is _b.bytes:
            return isinstance(x, SymSeq) and x.kind == "bytes"
        if t is _b.bytearray:
            return isinstance(x, SymSeq) and x.kind == "bytearray"
        if t is _b.str:
            return isinstance(x, SymSeq) and x.kind == "str"
        if t is object:
            return True
    return isinstance(x, t)


def len_(x):
    return _b.len(x)


def abs_(x):
    return _b.abs(x)


def _minmax(pick_first_if):
    def f(*args, **kw):
        key = kw.pop("key", None)
        has_default = "default" in kw
        if _b.len(args) == 1:
            vals = list(args[0])
        else:
            vals = list(args)
        if not vals:
            if has_default:
                return kw["default"]
            raise ValueError("arg is an empty sequence")
        if key is None and any(isinstance(v, (SymInt, SymBool)) for v in vals) and \
                all(isinstance(v, (_b.int, SymInt, SymBool)) for v in vals):
            r = vals[0]
            for v in vals[1:]:
                r = ite(pick_first_if(r, v), r, v)
            return r
        if key is None:
            key = lambda v: v
        r = vals[0]
        for v in vals[1:]:
            if not pick_first_if(key(r), key(v)):
                r = v
        return r
    return f


min_ = _minmax(lambda a, b: a <= b)
max_ = _minmax(lambda a, b: a >= b)


def pow_(b, e, m=None):
    if isinstance(b, (SymInt, SymBool)) or isinstance(m, (SymInt, SymBool)) or isinstance(e, (SymInt, SymBool)):
        if isinstance(e, (SymInt, SymBool)):
            if b == 2 and m is None:
                return 1 << e
            raise EngineError("pow() with symbolic exponent")
        if e < 0:
            raise EngineError("pow() with negative exponent on symbolic operands")
        return core.sym_pow(b, e, m)
    return _b.pow(b, e) if m is None else _b.pow(b, e, m)


def divmod_(a, b):
    if isinstance(a, (SymInt, SymBool)) or isinstance(b, (SymInt, SymBool)):
        if isinstance(a, SymBool):
            a = a._int()
        if isinstance(a, _b.int):
            a = core._const_sym(a, b)
        return a._divmod(b, "qr")
    return _b.divmod(a, b)


def hex_(x):
    if isinstance(x, (SymInt, SymBool)):
        s = fmt_int(x, "x")
        its = items_of(s)
        if its and its[0] == 45:
            return mk_seq("str", [45, 48, 120] + its[1:])
        return mk_seq("str", [48, 120] + its)
    return _b.hex(x)


def fmt_int(x, conv, width=0, zero=False, upper=False):
    """hex / decimal text of a symbolic int with optional zero padding (length decided by forking)"""
    if isinstance(x, SymBool):
        x = x._int()
    if conv == "d":
        s = dec_str(x)
    else:
        c = core.cur()
        neg = False
        if x.lo < 0:
            if c.branch((x < 0).e):
                neg = True
                x = -x
            else:
                x = core.mk_int(x.e, 0, x.hi)
        if isinstance(x, _b.int):
            s = ("-" if neg else "") + ("%X" % x if upper else "%x" % x)
        else:
            nd = 1
            while _b.bool(truth(x >= 16 ** nd)):
                nd += 1
            items = []
            for k in range(nd - 1, -1, -1):
                nib = (x >> (4 * k)) & 15
                items.append(ite(nib < 10, nib + 48, nib + (55 if upper else 87)))
            if neg:
                items.insert(0, 45)
            s = mk_seq("str", items)
    n = _b.len(s)
    if width > n:
        pad = "0" if zero else " "
        its = items_of(s)
        if zero and its and its[0] == 45:
            s = mk_seq("str", [45] + [48] * (width - n) + its[1:])
        else:
            s = mk_seq("str", [_b.ord(pad)] * (width - n) + its)
    return s


def sum_(it, start=0):
    r = start
    for v in it:
        r = r + v
    return r


def sorted_(it, key=None, reverse=False):
    return _b.sorted(it, key=key, reverse=reverse)


def repr_(x):
    if isinstance(x, SymSeq) and x.tag is not None and "__repr__" in x.tag.real.__dict__:
        return _call_tag_method(x, "__repr__")
    return _b.repr(x)


def dict_(*a, **k):
    return _b.dict(*a, **k)


def memoryview_(x):
    if isinstance(x, SymSeq):
        return x
    return _b.memoryview(x)


# AST-rewrite targets -------------------------------------------------------------------------------

def rt_subscript(obj, idx):
    if isinstance(idx, slice):
        if isinstance(idx.start, (SymInt, SymBool)) or isinstance(idx.stop, (SymInt, SymBool)) or isinstance(idx.step, (SymInt, SymBool)):
            from .seq import clip_slice
            try:
                n = _b.len(obj)
            except TypeError:
                return obj[idx]
            return obj[clip_slice(idx, n)]
        return obj[idx]
    if isinstance(idx, (SymInt, SymBool)):
        if isinstance(obj, SymSeq):
            return sym_index(obj, idx)
        if isinstance(obj, (_b.bytes, _b.bytearray, _b.str)):
            return sym_index(obj, idx)
        if isinstance(obj, (list, tuple)) and obj and _b.len(obj) <= 64 and \
                all(isinstance(v, (_b.int, SymInt)) and not isinstance(v, _b.bool) for v in obj):
            return sym_index(obj, idx)
    if isinstance(idx, SymSeq) and isinstance(obj, _b.dict) and not isinstance(obj, SymDict):
        if idx.concrete():
            return obj[idx.to_concrete()]
        kk = _dict_find(obj, idx)
        if kk is _NOKEY:
            raise KeyError(idx)
        return obj[kk]
    if isinstance(idx, (SymInt, SymBool)):
        if isinstance(obj, _b.dict) and not isinstance(obj, SymDict):
            # small int-keyed tables: chain of equality tests would fork anyway; concretise
            return obj[core.cur().concretize(idx)]
    return obj[idx]


def _dict_find(d, k):
    """key of plain dict d equal to symbolic sequence k (chain of equality decisions), or _NOKEY"""
    for kk in d:
        if isinstance(kk, (_b.bytes, _b.str, SymSeq)) and _b.len(kk) == _b.len(k):
            if _b.bool(truth(k == kk)):
                return kk
    return _NOKEY


_NOKEY = object()


def _symkey(k):
    return isinstance(k, SymSeq) and not k.concrete()


def rt_in(x, container):
    if isinstance(container, (SymDict, SymSet)):
        return x in container
    if isinstance(x, tuple) and is_symkey(x) and isinstance(container, (_b.dict, _b.set, _b.frozenset, _b.list, _b.tuple)):
        for k in container:
            if _b.bool(truth(deep_eq(x, k))):
                return True
        return False
    if _symkey(x) and isinstance(container, (_b.dict, _b.set, _b.frozenset)) and not isinstance(container, SymDict):
        return _dict_find(container, x) is not _NOKEY
    if isinstance(x, SymSeq) and x.concrete() and isinstance(container, (_b.dict, _b.set, _b.frozenset)):
        return x.to_concrete() in container
    if isinstance(container, (_b.bytes, _b.bytearray, _b.str)) and isinstance(x, (SymInt, SymSeq)):
        return x in SymSeq("bytes" if not isinstance(container, _b.str) else "str", items_of(container))
    return x in container


def rt_get(obj, k, default=None):
    if isinstance(obj, _b.dict) and not isinstance(obj, SymDict):
        if _symkey(k):
            kk = _dict_find(obj, k)
            return default if kk is _NOKEY else obj[kk]
        if isinstance(k, SymSeq):
            return obj.get(k.to_concrete(), default)
    return obj.get(k, default)


def rt_strmeth(obj, name, *args):
    """obj.find(x) etc. where obj is a real str/bytes and an argument is symbolic"""
    if isinstance(obj, (_b.str, _b.bytes)) and args and isinstance(args[0], (SymSeq, SymInt)) or \
            (isinstance(obj, (_b.str, _b.bytes)) and any(isinstance(a, (SymInt, SymBool)) for a in args[1:])):
        kind = "str" if isinstance(obj, _b.str) else "bytes"
        sub = args[0]
        if name == "find" and _b.len(args) == 1 and isinstance(sub, SymSeq) and _b.len(sub) == 1 and _b.len(obj) <= 256:
            ch = sub.items[0]
            from .seq import table_source
            src = table_source(ch, obj)
            if src is not None:
                return src
            r = -1
            its = items_of(obj)
            for i in range(_b.len(its) - 1, -1, -1):
                r = ite(ch == its[i], i, r)
            return r
        return getattr(SymSeq(kind, items_of(obj)), name)(*args)
    return getattr(obj, name)(*args)


def rt_ite(cond, fa, fb):
    """`a if cond else b` with call-free arms: merge instead of fork when possible"""
    c = truth(cond) if isinstance(cond, (SymBool, SymInt)) else cond
    if not isinstance(c, SymBool):
        return fa() if c else fb()
    ex = core.cur()
    ex.no_fork += 1
    try:
        try:
            a = fa()
            b = fb()
            ok = True
        except core.SpecFail:
            ok = False
        except Exception:
            ok = False
    finally:
        ex.no_fork -= 1
    if ok:
        if a is b:
            return a
        if isinstance(a, (_b.int, SymInt, SymBool)) and isinstance(b, (_b.int, SymInt, SymBool)):
            if isinstance(a, (_b.bool, SymBool)) != isinstance(b, (_b.bool, SymBool)):
                pass
            else:
                return ite(c, a, b)
        if isinstance(a, (_b.bytes, SymSeq)) and isinstance(b, (_b.bytes, SymSeq)) and _b.len(a) == _b.len(b) \
                and not isinstance(a, _b.str) and not isinstance(b, _b.str):
            ka = "bytes" if isinstance(a, _b.bytes) else a.kind
            kb = "bytes" if isinstance(b, _b.bytes) else b.kind
            if ka == kb == "bytes":
                return mk_seq("bytes", [ite(c, x, y) for x, y in zip(items_of(a), items_of(b))])
    return fa() if _b.bool(c) else fb()


class OpaqueText(str):
    """result of formatting symbolic data where the text is not modelled (messages only)"""
    _symx_opaque = True


def rt_mod(left, right):
    """`left % right` (string formatting when left is text)"""
    if isinstance(left, (_b.str, _b.bytes)):
        args = right if isinstance(right, tuple) else (right,)
        if any(isinstance(a, (SymInt, SymBool, SymSeq)) for a in args):
            return format_percent(left, args)
    return left % right


def format_percent(fmt, args):
    import re
    if isinstance(fmt, _b.bytes):
        raise EngineError("bytes %-formatting with symbolic arguments")
    out = []
    pos = 0
    ai = 0
    for m in re.finditer(r"%(0?)(\d*)([sdxXr%])", fmt):
        out.extend(ord(ch) for ch in fmt[pos:m.start()])
        pos = m.end()
        zero, width, conv = m.group(1) == "0", _b.int(m.group(2) or 0), m.group(3)
        if conv == "%":
            out.append(37)
            continue
        a = args[ai]
        ai += 1
        if conv in "dxX":
            if isinstance(a, (SymInt, SymBool)):
                try:
                    s = fmt_int(a, conv.lower(), width, zero, conv == "X")
                except core.SpecFail:
                    raise
            else:
                s = ("%" + m.group(1) + m.group(2) + conv) % a
        else:
            if isinstance(a, SymSeq):
                s = _str_call(a) if conv == "s" else repr_(a)
            elif isinstance(a, (SymInt, SymBool)):
                s = _str_call(a)
            else:
                s = ("%" + conv) % (a,)
            if width and _b.len(s) < width:
                s = mk_seq("str", [32] * (width - _b.len(s)) + items_of(s))
        out.extend(items_of(s))
    if "%" in fmt[pos:]:
        return OpaqueText("<unmodelled format %r>" % fmt)
    out.extend(ord(ch) for ch in fmt[pos:])
    return mk_seq("str", out)


def rt_msg(f):
    """evaluate a message expression inside `raise`: text content is irrelevant, forks are not wanted"""
    ex = core.CUR
    if ex is None:
        return f()
    ex.no_fork += 1
    try:
        try:
            return f()
        except core.SpecFail:
            return OpaqueText("<message with symbolic data>")
        except EngineError:
            return OpaqueText("<message with symbolic data>")
    finally:
        ex.no_fork -= 1


def rt_format(s, *args, **kw):
    if isinstance(s, _b.str) and any(isinstance(a, (SymInt, SymBool, SymSeq)) for a in list(args) + list(kw.values())):
        import re
        if kw or re.search(r"\{[^}]+\}", s):
            # only positional, spec-free fields are modelled
            if not kw and all(re.fullmatch(r"\{\d*\}", f) for f in re.findall(r"\{[^}]*\}", s)):
                pass
            else:
                return OpaqueText("<unmodelled format %r>" % s)
        out = []
        ai = 0
        pos = 0
        for m in re.finditer(r"\{(\d*)\}", s):
            out.extend(ord(ch) for ch in s[pos:m.start()])
            pos = m.end()
            idx = _b.int(m.group(1)) if m.group(1) else ai
            ai += 1
            out.extend(items_of(_str_call(args[idx])))
        out.extend(ord(ch) for ch in s[pos:])
        return mk_seq("str", out)
    return s.format(*args, **kw)


def make_builtins(import_hook):
    d = dict(vars(_b))
    d.update(
        int=int_, bytes=bytes_, bytearray=bytearray_, str=str_, set=SymSet, dict=SymDict,
        ord=ord_, chr=chr_, isinstance=isinstance_, min=min_, max=max_, pow=pow_, divmod=divmod_,
        hex=hex_, sum=sum_, repr=repr_, memoryview=memoryview_,
        __import__=import_hook,
        __symx_sub__=rt_subscript, __symx_ite__=rt_ite, __symx_mod__=rt_mod, __symx_join__=join_,
        __symx_msg__=rt_msg, __symx_super__=rt_super, __symx_strmeth__=rt_strmeth, __symx_slice__=slice, __symx_dict__=SymDict, __symx_in__=rt_in, __symx_get__=rt_get, __symx_format__=rt_format,
    )
    return d
