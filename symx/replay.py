"""symx.replay - run harness functions on concrete inputs against the uninstrumented code.
Executed with /venv/bin/python (no z3, plain `import pycoin`)."""
from __future__ import annotations

import json
import os
import sys
import traceback

from .core import ConcreteCtx, PathAbort, ViolationFound, AssumeFailed, EngineError


def run_one(item, cache):
    pid = item["property"]
    tier = item.get("tier", "quick")
    key = (pid, tier)
    if key not in cache:
        import importlib
        os.environ["VERIF_TIER"] = tier
        mod = importlib.import_module("harness.%s" % pid)
        cache[key] = {o.name: o for o in mod.obligations(tier)}
    obs = cache[key]
    ob = obs.get(item["obligation"])
    if ob is None:
        # the obligation may exist only in the other tier
        import importlib
        mod = importlib.import_module("harness.%s" % pid)
        for t in ("thorough", "quick"):
            o2 = {o.name: o for o in mod.obligations(t)}
            if item["obligation"] in o2:
                ob = o2[item["obligation"]]
                break
    if ob is None:
        return dict(error="no obligation %r" % item["obligation"], failed=[])
    ctx = ConcreteCtx(item["inputs"])
    res = dict(failed=[], passed=[], known_hit=[])
    try:
        ob.fn(ctx, **ob.params)
    except ViolationFound:
        pass
    except AssumeFailed as e:
        res["assume_failed"] = str(e)
    except PathAbort as e:
        res["error"] = "path abort in concrete mode: %r" % (e,)
    except EngineError as e:
        res["error"] = "engine error in concrete mode: %s" % e
    except Exception as e:
        res["error"] = "uncaught %s: %s\n%s" % (type(e).__name__, e, traceback.format_exc()[-1500:])
    res["failed"] = ctx.failed
    res["passed"] = ctx.passed
    res["known_hit"] = ctx.known_hit
    res["detail"] = ctx.path_notes[-5:]
    return res


def main(argv):
    inp, outp = argv
    with open(inp) as f:
        items = json.load(f)
    for k in list(sys.modules):
        assert not k.startswith("z3"), "replay must not depend on the solver"
    cache = {}
    out = [run_one(it, cache) for it in items]
    with open(outp, "w") as f:
        json.dump(out, f)


if __name__ == "__main__":
    main(sys.argv[1:])
