"""symx.runner - obligations, parallel discharge, replay, known findings, evidence."""
from __future__ import annotations

import hashlib
import importlib
import json
import multiprocessing as mp
import os
import subprocess
import sys
import tempfile
import time
import traceback

VERIF = os.path.dirname(os.path.dirname(os.path.abspath(__file__)))
REPO = os.environ.get("VERIF_REPO", "/repo")
REPLAY_PY = os.environ.get("VERIF_REPLAY_PY", "/venv/bin/python")


class Ob:
    """one obligation: a harness function explored over all paths within its stated bound"""

    def __init__(self, name, fn, bound, params=None, expect=(), rlimit=30_000_000, max_paths=200000,
                 max_decisions=3000, deadline_s=600, max_violations=1, weight=1, cap=None, collision_free=False, uniform=None):
        self.cap = cap
        self.uniform = uniform
        self.collision_free = collision_free
        self.name = name
        self.fn = fn
        self.bound = bound
        self.params = params or {}
        self.expect = tuple(expect)
        self.rlimit = rlimit
        self.max_paths = max_paths
        self.max_decisions = max_decisions
        self.deadline_s = deadline_s
        self.max_violations = max_violations
        self.weight = weight


def load_harness(pid):
    return importlib.import_module("harness.%s" % pid)


def load_known():
    p = os.path.join(VERIF, "known_findings.json")
    if not os.path.exists(p):
        return []
    with open(p) as f:
        return json.load(f)["findings"]


# ---------------------------------------------------------------------------------------------
# worker side

_FUNCS = set()


def _profiler(frame, event, arg):
    if event == "call":
        co = frame.f_code
        fn = co.co_filename
        if fn.startswith(REPO + "/pycoin/"):
            _FUNCS.add("%s:%s" % (fn[len(REPO) + 1:], getattr(co, "co_qualname", co.co_name)))


def _worker(args):
    pid, tier, obname, known_active, seed = args
    os.environ["VERIF_TIER"] = tier
    t0 = time.time()
    out = dict(name=obname, ok=False)
    try:
        from . import loader, core
        loader.install()
        mod = load_harness(pid)
        obs = {o.name: o for o in mod.obligations(tier)}
        ob = obs[obname]
        known = {k["class"]: k for k in known_active if k.get("obligation") in (obname, None) or obname.startswith(k.get("obligation", "\0"))}
        ex = core.Explorer(rlimit=ob.rlimit, max_paths=ob.max_paths, max_decisions=ob.max_decisions,
                           deadline_s=ob.deadline_s, max_violations=ob.max_violations, known=known, seed=seed, cap=ob.cap, collision_free=ob.collision_free, uniform=ob.uniform)
        params = ob.params

        count = [0]

        def fn(ctx):
            count[0] += 1
            if count[0] <= 2:
                sys.setprofile(_profiler)
                try:
                    return ob.fn(ctx, **params)
                finally:
                    sys.setprofile(None)
            return ob.fn(ctx, **params)

        _FUNCS.clear()
        try:
            ex.run(fn)
        except core.EngineError as e:
            if ob.cap is not None and "WidthExceeded" in str(e):
                # the code needs the true value of something tracked modulo 2**cap: redo with exact integers
                ex = core.Explorer(rlimit=ob.rlimit, max_paths=ob.max_paths, max_decisions=ob.max_decisions,
                                   deadline_s=ob.deadline_s, max_violations=ob.max_violations, known=known, seed=seed, cap=None, collision_free=ob.collision_free, uniform=ob.uniform)
                ex.stats.notes.append("width cap %d exceeded; re-run with exact integers" % ob.cap)
                ex.run(fn)
            else:
                raise
        st = ex.stats.as_dict()
        cand_tries = 0
        if ex.stats.inconclusive and not ex.violations:
            # undecided by the solver: try to refute with concrete candidates (a hit is replayed like any counterexample)
            v, cand_tries = core.refute_by_candidates(lambda c: ob.fn(c, **params), seed + 1, budget_s=min(30.0, ob.deadline_s / 4))
            if v is not None:
                ex.violations.append(v)
        st["candidate_tries"] = cand_tries
        out.update(ok=True, stats=st, bound=ob.bound,
                   violations=[dict(label=v.label, inputs=v.inputs, note=v.note) for v in ex.violations],
                   passing=ex.passing_samples, unknown_samples=ex.unknown_samples,
                   known_used=sorted(ex.known_used),
                   functions=sorted(_FUNCS), files=loader.encoded_files(),
                   missing=[l for l in ob.expect if not st["reached"].get(l)])
    except BaseException as e:  # EngineError is a BaseException
        out.update(ok=False, error="%s: %s" % (type(e).__name__, e), tb=traceback.format_exc())
    out["wall_s"] = round(time.time() - t0, 3)
    try:
        from . import core as _c
        if _c.SITES:
            for kk, v in sorted(_c.SITES.items(), key=lambda kv: -kv[1])[:25]:
                print('SITE %6d %s' % (v, kk), file=sys.stderr)
    except Exception:
        pass
    return out


# ---------------------------------------------------------------------------------------------
# replay (runs under the repository's own interpreter, uninstrumented code)

def replay_items(items):
    """items: list of dict(property, obligation, inputs, tier).  Returns list of dict(failed=[labels], error=...)"""
    if not items:
        return []
    d = tempfile.mkdtemp(prefix="vreplay-")
    try:
        inp = os.path.join(d, "in.json")
        outp = os.path.join(d, "out.json")
        with open(inp, "w") as f:
            json.dump(items, f)
        env = dict(os.environ)
        env["PYTHONPATH"] = VERIF + os.pathsep + REPO
        env.setdefault("PYCOIN_NATIVE", "none")
        r = subprocess.run([REPLAY_PY, "-m", "symx.replay", inp, outp], env=env, cwd=VERIF,
                           capture_output=True, text=True, timeout=1800)
        if r.returncode != 0 or not os.path.exists(outp):
            raise RuntimeError("replay process failed: %s\n%s" % (r.stdout[-2000:], r.stderr[-4000:]))
        with open(outp) as f:
            return json.load(f)
    finally:
        import shutil
        shutil.rmtree(d, ignore_errors=True)


# ---------------------------------------------------------------------------------------------
# driver

def run_property(pid, tier="quick", seed=0, jobs=None, only=None, verbose=True):
    t0 = time.time()
    mod = load_harness(pid)
    meta = getattr(mod, "META", {})
    obs = mod.obligations(tier)
    if only:
        obs = [o for o in obs if only in o.name]
    jobs = jobs or min(16, os.cpu_count() or 4)
    lines = []

    def say(s):
        lines.append(s)
        if verbose:
            print(s, flush=True)

    harness_errors = []

    # 1. known findings: replay witnesses first; only reproducing ones are active
    known_all = [k for k in load_known() if k["property"] == pid]
    known_listed = [k for k in known_all if k.get("status") == "known"]
    known_active = []
    if known_listed:
        res = replay_items([dict(property=pid, obligation=k["witness_obligation"], inputs=k["witness"], tier=tier)
                            for k in known_listed])
        for k, r in zip(known_listed, res):
            if r.get("error"):
                harness_errors.append("known-finding witness %s: %s" % (k["id"], r["error"]))
            elif r["failed"]:
                known_active.append(k)
                say("KNOWN-FINDING: property=%s %s [%s]" % (pid, k["what"], k["id"]))
            else:
                say("NOTE: listed finding %s no longer reproduces on this tree (entry is stale; not suppressing anything)" % k["id"])

    # 2. discharge obligations in parallel
    tasks = [(pid, tier, o.name, known_active, seed) for o in sorted(obs, key=lambda o: -o.weight)]
    results = {}
    if jobs == 1 or len(tasks) == 1:
        for t in tasks:
            results[t[2]] = _run_isolated(t)
    else:
        results.update(_run_tasks(tasks, min(jobs, len(tasks)), obs, verbose))

    t_pool = time.time() - t0
    # 3. triage
    violations = []      # confirmed, not known
    replay_queue = []
    cov_obs = []
    tot = dict(paths=0, queries=0, solver_s=0.0, checks=0, discharged=0, inconclusive=0)
    functions = set()
    files = set()
    samples = []
    for o in obs:
        r = results[o.name]
        if not r.get("ok"):
            harness_errors.append("%s: %s\n%s" % (o.name, r.get("error"), r.get("tb", "")))
            continue
        st = r["stats"]
        for k in ("paths", "queries", "checks", "discharged", "inconclusive"):
            tot[k] += st[k]
        tot["solver_s"] += st["solver_s"]
        functions.update(r["functions"])
        files.update(r["files"])
        if r["missing"] and not r["violations"]:
            harness_errors.append("VACUOUS: %s never reached check(s) %s" % (o.name, r["missing"]))
        if st["checks"] == 0 and not r["violations"]:
            harness_errors.append("VACUOUS: %s reached no check at all" % o.name)
        for v in r["violations"]:
            replay_queue.append(("violation", o, v))
        for p in r["passing"][:1]:
            replay_queue.append(("passing", o, dict(label=None, inputs=p)))
        cov_obs.append(dict(name=o.name, bound=o.bound, paths=st["paths"], queries=st["queries"],
                            checks=st["checks"], discharged=st["discharged"], inconclusive=st["inconclusive"],
                            solver_s=st["solver_s"], wall_s=r["wall_s"], notes=st["notes"][:3],
                            aborted=st["aborted"], violations=len(r["violations"])))
        if st["inconclusive"]:
            say("INCONCLUSIVE: property=%s obligation=%s (%s)" % (pid, o.name, "; ".join(st["notes"][:2])))
        if r["passing"] and len(samples) < 6:
            samples.append(dict(obligation=o.name, verdict="holds on this path", inputs=r["passing"][0]))

    rep = replay_items([dict(property=pid, obligation=o.name, inputs=v["inputs"], tier=tier) for _, o, v in replay_queue])
    validated = 0
    os.makedirs(os.path.join(VERIF, "evidence", "replays"), exist_ok=True)
    for (kind, o, v), r in zip(replay_queue, rep):
        if kind == "passing":
            if r.get("error"):
                harness_errors.append("passing-path replay of %s errored: %s" % (o.name, r["error"]))
            elif r["failed"]:
                harness_errors.append("passing path of %s FAILS on the real code (labels %s, inputs %s): proxy semantics diverge"
                                      % (o.name, r["failed"], json.dumps(v["inputs"])[:400]))
            elif r.get("assume_failed"):
                harness_errors.append("passing path of %s does not meet the harness precondition concretely: %s" % (o.name, r.get("assume_failed")))
            else:
                validated += 1
            continue
        if r.get("error"):
            harness_errors.append("counterexample replay of %s errored: %s" % (o.name, r["error"]))
            continue
        if not r["failed"]:
            harness_errors.append("counterexample for %s / %s does NOT reproduce on the real code (inputs %s): encoding or stub is wrong"
                                  % (o.name, v["label"], json.dumps(v["inputs"])[:600]))
            continue
        if r.get("known_hit") and any(k["class"] in r["known_hit"] for k in known_active):
            # can only happen if the harness did not exclude the class symbolically
            continue
        digest = hashlib.sha1(json.dumps([o.name, v["label"], v["inputs"]], sort_keys=True).encode()).hexdigest()[:10]
        path = os.path.join(VERIF, "evidence", "replays", "%s-%s-%s.json" % (pid, _safe(o.name), digest))
        with open(path, "w") as f:
            json.dump(dict(property=pid, obligation=o.name, label=v["label"], inputs=v["inputs"], tier=tier,
                           observed=r.get("detail"), note=v.get("note")), f, indent=1)
        violations.append((o.name, v["label"], path))
        samples.insert(0, dict(obligation=o.name, verdict="VIOLATION " + v["label"], inputs=v["inputs"]))

    for name, label, path in violations:
        say("VIOLATION property=%s replay=%s" % (pid, path))
        say("  obligation=%s check=%s" % (name, label))

    wall = time.time() - t0
    if verbose:
        print("  [timing] discharge %.1fs, replay+triage %.1fs" % (t_pool, wall - t_pool), flush=True)
    if not samples:
        samples = [dict(obligation=o.name, bound=o.bound) for o in obs[:3]]
    evidence = dict(
        property_id=pid, tier=tier, seed=seed, level="model_checking",
        coverage=dict(
            states=tot["paths"], transitions=tot["queries"], traces_validated_against_impl=validated,
            samples=samples[:8],
            obligations=tot["checks"], discharged=tot["discharged"], inconclusive=tot["inconclusive"],
            obligation_families=len(obs),
            solver_s=round(tot["solver_s"], 2),
            functions_encoded=sorted(functions), source_files_loaded=len(files),
            bounds=[dict(obligation=c["name"], bound=c["bound"]) for c in cov_obs],
            per_obligation=cov_obs,
            stubs=meta.get("stubs", []), outside_claim=meta.get("outside", []),
            known_findings_active=[k["id"] for k in known_active],
            harness_errors=harness_errors[:10],
            explanation="states = feasible symbolic paths explored (each stands for every input satisfying its path "
                        "condition); transitions = solver queries; obligations = check instances (path x assertion), "
                        "discharged = those z3 proved unsat or that were decided concretely.",
            checker_cmd="./vcheck %s --tier %s" % (pid, tier),
        ),
        assumptions=meta.get("assumptions", []),
        wall_s=round(wall, 2), violations=len(violations),
    )
    os.makedirs(os.path.join(VERIF, "evidence"), exist_ok=True)
    with open(os.path.join(VERIF, "evidence", "%s.json" % pid), "w") as f:
        json.dump(evidence, f, indent=1)
    say("%s %s: %d obligation families, %d paths, %d queries, %d/%d checks discharged, %d inconclusive, "
        "%d passing traces replayed on the real code, solver %.1fs, wall %.1fs"
        % (pid, tier, len(obs), tot["paths"], tot["queries"], tot["discharged"], tot["checks"], tot["inconclusive"],
           validated, tot["solver_s"], wall))
    for h in harness_errors:
        say("HARNESS-ERROR: " + h)
    if violations:
        return 1        # replay-confirmed on the uninstrumented code: stands regardless of harness problems elsewhere
    return 2 if harness_errors else 0


def _child(conn, t):
    try:
        conn.send(_worker(t))
    except BaseException as e:
        try:
            conn.send(dict(name=t[2], ok=False, error="worker failed: %r" % (e,), wall_s=0))
        except Exception:
            pass
    finally:
        conn.close()


def _run_tasks(tasks, jobs, obs, verbose):
    """one process per obligation with a hard wall-clock limit; a crashed or stuck worker is reported, never waited for forever"""
    ctx = mp.get_context("fork")
    limits = {o.name: o.deadline_s * 2 + 300 for o in obs}
    pending = list(tasks)
    running = {}
    results = {}
    while pending or running:
        while pending and len(running) < jobs:
            t = pending.pop(0)
            pc, cc = ctx.Pipe(duplex=False)
            p = ctx.Process(target=_child, args=(cc, t), daemon=True)
            p.start()
            cc.close()
            running[t[2]] = (p, pc, time.time())
        done = []
        for name, (p, pc, t0) in running.items():
            if pc.poll(0.02):
                try:
                    r = pc.recv()
                except EOFError:
                    r = dict(name=name, ok=False, error="worker died without a result (exit code %s)" % p.exitcode, wall_s=time.time() - t0)
                results[name] = r
                done.append(name)
            elif not p.is_alive():
                results[name] = dict(name=name, ok=False, error="worker died without a result (exit code %s)" % p.exitcode, wall_s=time.time() - t0)
                done.append(name)
            elif time.time() - t0 > limits.get(name, 1500):
                p.kill()
                results[name] = dict(name=name, ok=False, error="hard wall-clock limit exceeded; worker killed", wall_s=time.time() - t0)
                done.append(name)
        for name in done:
            p, pc, _ = running.pop(name)
            p.join(1)
            pc.close()
            r = results[name]
            if verbose and not r.get("ok"):
                print("  [engine] %s: %s" % (name, r.get("error")), flush=True)
        if not done:
            time.sleep(0.05)
    return results


def _run_isolated(t):
    ctx = mp.get_context("fork")
    with ctx.Pool(1) as pool:
        return pool.apply(_worker, (t,))


def _safe(s):
    return "".join(c if c.isalnum() or c in "-_." else "_" for c in s)[:60]
