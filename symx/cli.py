from __future__ import annotations

import argparse
import json
import os
import sys


def main():
    ap = argparse.ArgumentParser(prog="vcheck")
    ap.add_argument("property")
    ap.add_argument("--tier", default=os.environ.get("VERIF_TIER", "quick"), choices=["quick", "thorough"])
    ap.add_argument("--jobs", type=int, default=None)
    ap.add_argument("--only", default=None)
    ap.add_argument("--replay", default=None)
    ap.add_argument("--list", action="store_true")
    a = ap.parse_args()
    seed = int(os.environ.get("VERIF_SEED", "0") or 0)
    sys.path.insert(0, os.path.dirname(os.path.dirname(os.path.abspath(__file__))))
    from . import runner
    if a.property == "selftest":
        from . import selftest
        sys.exit(selftest.main())
    if a.replay:
        with open(a.replay) as f:
            item = json.load(f)
        r = runner.replay_items([dict(property=item["property"], obligation=item["obligation"],
                                      inputs=item["inputs"], tier=item.get("tier", "quick"))])[0]
        if r.get("error"):
            print("REPLAY-ERROR:", r["error"])
            sys.exit(2)
        if r["failed"]:
            print("REPRODUCED: property=%s obligation=%s failed check(s) %s on the uninstrumented code"
                  % (item["property"], item["obligation"], r["failed"]))
            for d in r.get("detail") or []:
                print("  ", d)
            sys.exit(1)
        print("NOT-REPRODUCED: all checks passed (%s)" % r.get("passed"))
        sys.exit(0)
    if a.list:
        mod = runner.load_harness(a.property)
        for o in mod.obligations(a.tier):
            print(o.name, "|", o.bound)
        return
    sys.exit(runner.run_property(a.property, a.tier, seed, a.jobs, a.only))


if __name__ == "__main__":
    main()
