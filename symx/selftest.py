"""Engine self-test: every proxy operation and library shim is compared with CPython on random
and boundary values (the symbolic result, under the assumption inputs == concrete values, must
equal what CPython computes).  A failure aborts with exit 2: nothing the checks say is then a claim."""
from __future__ import annotations

import base64
import binascii
import operator
import random
import struct
import sys
import time


def main():
    from . import core, loader
    from .core import Explorer, SymInt
    from .shims import struct_shim, binascii_shim, io_shim
    from . import builtins_ as B
    from .seq import SymSeq, mk_seq
    rnd = random.Random(12345)
    fails = []
    n_cases = [0]

    def run(fn, label):
        ex = Explorer(max_paths=200, rlimit=50_000_000)
        try:
            ex.run(fn)
        except BaseException as e:
            fails.append("%s: engine raised %s: %s" % (label, type(e).__name__, e))
            return
        n_cases[0] += 1
        if ex.violations:
            fails.append("%s: symbolic result differs from CPython, inputs %s" % (label, ex.violations[0].inputs))
        elif ex.stats.checks == 0:
            fails.append("%s: no check reached" % label)
        elif ex.stats.inconclusive:
            fails.append("%s: inconclusive" % label)

    def pick():
        k = rnd.choice([1, 4, 8, 9, 16, 31, 32, 33, 64, 70])
        v = rnd.choice([0, 1, -1, (1 << k) - 1, 1 << (k - 1), -(1 << (k - 1)), rnd.getrandbits(k), -rnd.getrandbits(k)])
        return v

    binops = [("add", operator.add), ("sub", operator.sub), ("mul", operator.mul), ("floordiv", operator.floordiv),
              ("mod", operator.mod), ("and", operator.and_), ("or", operator.or_), ("xor", operator.xor),
              ("lt", operator.lt), ("le", operator.le), ("eq", operator.eq), ("ne", operator.ne), ("gt", operator.gt), ("ge", operator.ge)]
    for name, op in binops:
        for rep in range(14):
            a, b = pick(), pick()
            if name in ("floordiv", "mod") and b == 0:
                b = 3
            want = op(a, b)
            mode = rep % 3  # sym op sym / sym op const / const op sym

            def h(ctx, a=a, b=b, want=want, mode=mode, op=op):
                span = 1 << 72
                x = ctx.sym_int("x", a - rnd_off[0], a + span) if mode != 2 else a
                y = ctx.sym_int("y", b - span, b + rnd_off[1]) if mode != 1 else b
                if mode != 2:
                    ctx.assume(x == a)
                if mode != 1:
                    ctx.assume(y == b)
                ctx.check(op(x, y) == want, "op")
            rnd_off = (rnd.randrange(0, 1 << 20), rnd.randrange(0, 1 << 20))
            run(h, "%s(%d,%d) mode %d" % (name, a, b, mode))
    for name, op in [("lshift", operator.lshift), ("rshift", operator.rshift)]:
        for rep in range(10):
            a, s = pick(), rnd.choice([0, 1, 7, 8, 31, 32, 33, 80])
            want = op(a, s)

            def h(ctx, a=a, s=s, want=want, op=op, rep=rep):
                x = ctx.sym_int("x", a - 1000, a + (1 << 40))
                ctx.assume(x == a)
                if rep % 2:
                    sh = ctx.sym_int("s", 0, 100)
                    ctx.assume(sh == s)
                else:
                    sh = s
                ctx.check(op(x, sh) == want, "op")
            run(h, "%s(%d,%d)" % (name, a, s))
    for name, op in [("neg", operator.neg), ("abs", abs), ("invert", operator.invert), ("bit_length", lambda v: v.bit_length()),
                     ("bool", lambda v: (v != 0))]:
        for rep in range(8):
            a = pick()
            want = op(a)

            def h(ctx, a=a, want=want, op=op):
                x = ctx.sym_int("x", a - (1 << 66), a + 5)
                ctx.assume(x == a)
                ctx.check(op(x) == want, "op")
            run(h, "%s(%d)" % (name, a))
    # divmod / pow / min / max through the builtins
    for rep in range(10):
        a, b, m = pick(), rnd.choice([3, 7, -5, 256, 1000003]), rnd.choice([97, 2 ** 31 - 1, 65537])
        e = rnd.choice([0, 1, 2, 5, 17])

        def h(ctx, a=a, b=b, m=m, e=e):
            x = ctx.sym_int("x", a - 9, a + (1 << 65))
            ctx.assume(x == a)
            q, r = B.divmod_(x, b)
            ctx.check(core.sym_and(q == a // b, r == a % b), "divmod")
            ctx.check(B.pow_(x, e, m) == pow(a, e, m), "pow")
            ctx.check(B.min_(x, b) == min(a, b), "min")
            ctx.check(B.max_(x, b, 5) == max(a, b, 5), "max")
        run(h, "divmod/pow/min/max(%d,%d,%d,%d)" % (a, b, e, m))
    # to_bytes / from_bytes / struct
    for fmt in ["<B", "<H", "<L", "<Q", ">H", ">L", "!H", ">Q", "<l", ">l", "<q", "<h", "?"]:
        for rep in range(6):
            size = struct.calcsize(fmt)
            code = fmt[-1]
            if code == "?":
                v = rnd.choice([0, 1])
            elif code.islower():
                v = rnd.choice([0, -1, (1 << (8 * size - 1)) - 1, -(1 << (8 * size - 1)), rnd.getrandbits(8 * size - 1)])
            else:
                v = rnd.choice([0, 1, (1 << (8 * size)) - 1, rnd.getrandbits(8 * size), 0x80, 0xFF00])
                v &= (1 << (8 * size)) - 1
            want = struct.pack(fmt, v)

            def h(ctx, fmt=fmt, v=v, want=want, size=size):
                if fmt == "?":
                    x = ctx.sym_int("x", 0, 1)
                else:
                    x = ctx.sym_int("x", v - 3, v + (1 << 70))
                ctx.assume(x == v)
                got = struct_shim.pack(fmt, x)
                ctx.check(got == want, "pack")
                b = ctx.sym_bytes("b", size)
                ctx.assume(b == want)
                back = struct_shim.unpack(fmt, b)[0]
                ctx.check(back == struct.unpack(fmt, want)[0], "unpack")
                if fmt != "?" and not fmt[-1].islower():
                    order = "big" if fmt[0] in ">!" else "little"
                    ctx.check(x.to_bytes(size, order) == want, "to_bytes")
                    ctx.check(B.int_.from_bytes(b, order) == v, "from_bytes")
            run(h, "struct %s %d" % (fmt, v))
    # out-of-range pack raises
    def h(ctx):
        x = ctx.sym_int("x", 0, 1 << 40)
        ctx.assume(x == 70000)
        try:
            struct_shim.pack("<H", x)
            ok = False
        except struct.error:
            ok = True
        ctx.check(ok, "range")
    run(h, "struct range")
    # hexlify / unhexlify / fromhex / base64 / hex()
    for rep in range(25):
        n = rnd.choice([0, 1, 2, 3, 4, 5, 6, 7, 10])
        data = bytes(rnd.getrandbits(8) for _ in range(n))

        def h(ctx, data=data, n=n):
            b = ctx.sym_bytes("b", n)
            ctx.assume(b == data)
            hx = binascii_shim.hexlify(b)
            ctx.check(hx == binascii.hexlify(data), "hexlify")
            if n:
                ctx.check(b.hex() == data.hex(), "hex")
            ctx.check(binascii_shim.unhexlify(hx) == data, "unhexlify")
            ctx.check(binascii_shim.b2a_base64(b) == binascii.b2a_base64(data), "b2a_base64")
            e = binascii.b2a_base64(data)
            s = ctx.sym_bytes("e", len(e))
            ctx.assume(s == e)
            ctx.check(binascii_shim.a2b_base64(s) == data, "a2b_base64")
        run(h, "hex/base64 %r" % data.hex())
    # a2b_base64 on junk (lenient decoder) incl. error behaviour
    alphabet = b"ABab01+/=\n !-"
    for rep in range(40):
        n = rnd.choice([1, 2, 3, 4, 5, 6, 8])
        txt = bytes(rnd.choice(alphabet) for _ in range(n))
        try:
            want = binascii.a2b_base64(txt)
        except binascii.Error:
            want = None

        def h(ctx, txt=txt, want=want):
            s = ctx.sym_bytes("s", len(txt))
            ctx.assume(s == txt)
            try:
                got = binascii_shim.a2b_base64(s)
            except binascii.Error:
                got = None
            if want is None or got is None:
                ctx.check(want is None and got is None, "a2b-error")
            else:
                ctx.check(got == want, "a2b")
        run(h, "a2b_base64 %r" % txt)
    # unhexlify errors
    for txt in [b"0g", b"abc", b"zz", b"0A", b"Ff"]:
        try:
            want = binascii.unhexlify(txt)
        except binascii.Error:
            want = None

        def h(ctx, txt=txt, want=want):
            s = ctx.sym_bytes("s", len(txt))
            ctx.assume(s == txt)
            try:
                got = binascii_shim.unhexlify(s)
            except binascii.Error:
                got = None
            ctx.check((got == want) if want is not None and got is not None else (got is None and want is None), "unhex")
        run(h, "unhexlify %r" % txt)
    # int(text) / str(int) / %-formatting
    for txt in ["0", "7", "-12", "+5", "00", "1_0", "_1", "1_", "1__0", "12a", "", "-", " 42 ", "0x1f", "9999999999999999999", "١٢"]:
        for base in (10, 16):
            if any(ord(c) > 127 for c in txt):
                continue
            try:
                want = int(txt, base)
            except ValueError:
                want = None

            def h(ctx, txt=txt, want=want, base=base):
                if not txt:
                    return ctx.check(True, "int")
                s = ctx.sym_str("s", len(txt))
                ctx.assume(s == txt)
                try:
                    got = B.int_(s, base) if base != 10 else B.int_(s)
                except ValueError:
                    got = None
                ctx.check((got == want) if (got is not None and want is not None) else (got is None and want is None), "int")
            run(h, "int(%r,%d)" % (txt, base))
    for v in [0, 5, 10, 99, 100, -1, -100, 12345678901234567890, 255, 256, 4095, 4096]:
        def h(ctx, v=v):
            x = ctx.sym_int("x", v - 7, v + (1 << 70))
            ctx.assume(x == v)
            ctx.check(B.str_(x) == str(v), "str")
            ctx.check(B.rt_mod("%d", x) == "%d" % v, "%d")
            ctx.check(B.rt_mod("a%xb", x) == "a%xb" % v, "%x")
            ctx.check(B.rt_mod("%02x", x) == "%02x" % v, "%02x")
            ctx.check(B.rt_mod("%08X|%s", (x, x)) == "%08X|%s" % (v, v), "%08X")
            ctx.check(B.hex_(x) == hex(v), "hex()")
            ctx.check(B.rt_format("<{}:{}>", x, "k") == "<{}:{}>".format(v, "k"), "format")
        run(h, "text of %d" % v)
    # sequences: slicing with symbolic bounds, find, compare, join, split, strip, case
    for rep in range(30):
        n = rnd.choice([0, 1, 3, 6])
        data = bytes(rnd.choice(b"ab \x00\xffAZ") for _ in range(n))
        i, j = rnd.randrange(-8, 9), rnd.randrange(-8, 9)
        other = bytes(rnd.choice(b"ab ") for _ in range(rnd.choice([0, 1, 2, n])))

        def h(ctx, data=data, i=i, j=j, other=other, n=n):
            b = ctx.sym_bytes("b", n)
            ctx.assume(b == data)
            a = ctx.sym_int("i", -9, 9)
            c = ctx.sym_int("j", -9, 9)
            ctx.assume(a == i)
            ctx.assume(c == j)
            ctx.check(B.rt_subscript(b, slice(a, c)) == data[i:j], "slice")
            ctx.check(B.rt_subscript(data, slice(a, c)) == data[i:j], "slice-concrete-seq")
            ctx.check(b.find(other) == data.find(other), "find")
            ctx.check(core.truth(b < other) == (data < other), "lt")
            ctx.check(core.truth(b >= other) == (data >= other), "ge")
            ctx.check(b.startswith(other) == data.startswith(other), "startswith")
            ctx.check(b.endswith(other) == data.endswith(other), "endswith")
            ctx.check(B.join_(b"-", [b, other, b]) == b"-".join([data, other, data]), "join")
            ctx.check(b.split(b" ") == data.split(b" "), "split")
            ctx.check(b.strip() == data.strip(), "strip")
            ctx.check(b.lower() == data.lower(), "lower")
            ctx.check(b.upper() == data.upper(), "upper")
            ctx.check((other in b) == (other in data), "contains")
            if n and -n <= i < n:
                ctx.check(B.rt_subscript(b, a) == data[i], "index")
                ctx.check(B.rt_subscript(data, a) == data[i], "index-concrete-seq")
            f = io_shim.BytesIO(b)
            r1 = f.read(2)
            f.write(other)
            import io
            g = io.BytesIO(data)
            r2 = g.read(2)
            g.write(other)
            ctx.check(core.sym_and(r1 == r2, f.getvalue() == g.getvalue(), f.tell() == g.tell()), "bytesio")
        run(h, "seq %r %d %d %r" % (data, i, j, other))
    # utf-8 encode of symbolic text
    for txt in ["a", "é", "€", "😀", "aé€"]:
        def h(ctx, txt=txt):
            s = ctx.sym_str("s", len(txt), lo=0, hi=0x10FFFF)
            ctx.assume(s == txt)
            ctx.check(s.encode("utf8") == txt.encode("utf8"), "utf8")
        run(h, "utf8 %r" % txt)
    # instrumented-module fidelity on a sample: the rewritten source, fed concrete values, behaves like the original
    print("selftest: %d cases, %d failures" % (n_cases[0], len(fails)))
    for f in fails[:30]:
        print("SELFTEST-FAIL:", f)
    return 2 if fails else 0


if __name__ == "__main__":
    sys.exit(main())
