from __future__ import annotations

import struct as _s
import re

from .. import core
from ..core import SymInt, SymBool, EngineError
from ..seq import SymSeq, mk_seq, items_of

error = _s.error
calcsize = _s.calcsize
Struct = _s.Struct

_INT = {"B": (1, False), "b": (1, True), "H": (2, False), "h": (2, True), "I": (4, False), "i": (4, True),
        "L": (4, False), "l": (4, True), "Q": (8, False), "q": (8, True)}


def _parse(fmt):
    order = "@"
    if fmt and fmt[0] in "<>!=@":
        order, fmt = fmt[0], fmt[1:]
    toks = []
    for m in re.finditer(r"\s*(\d*)([a-zA-Z?])", fmt):
        cnt, ch = m.group(1), m.group(2)
        if ch in "sp":
            toks.append((ch, int(cnt) if cnt else 1))
        else:
            for _ in range(int(cnt) if cnt else 1):
                toks.append((ch, 1))
    if order in "@=":
        # native: pycoin only uses single-byte native formats ("?", "B"); refuse anything where
        # alignment or native sizes could matter
        for ch, _ in toks:
            if ch not in "?Bbsxc":
                raise EngineError("native-order struct format %r not modelled" % fmt)
    big = order in ">!"
    return big, toks


def _any_sym(vals):
    return any(isinstance(v, (SymInt, SymBool, SymSeq)) for v in vals)


def _fmt_ok(fmt):
    if not isinstance(fmt, (str, bytes)):
        raise TypeError("Struct() argument 1 must be a str or bytes object, not %s" % ("int" if isinstance(fmt, (SymInt, SymBool)) else type(fmt).__name__))


def pack(fmt, *vals):
    _fmt_ok(fmt)
    if not _any_sym(vals):
        return _s.pack(fmt, *vals)
    big, toks = _parse(fmt)
    need_vals = sum(1 for ch, _ in toks if ch != "x")
    if need_vals != len(vals):
        raise error("pack expected %d items for packing (got %d)" % (need_vals, len(vals)))
    out = []
    vi = 0
    for ch, cnt in toks:
        if ch == "x":
            out.append(0)
            continue
        v = vals[vi]
        vi += 1
        if ch == "s":
            its = list(items_of(v))[:cnt]
            its += [0] * (cnt - len(its))
            out.extend(its)
        elif ch == "?":
            t = core.truth(v)
            out.append(core.ite(t, 1, 0) if isinstance(t, SymBool) else (1 if t else 0))
        elif ch in _INT:
            size, signed = _INT[ch]
            if isinstance(v, SymBool):
                v = v._int()
            if isinstance(v, SymSeq) or not isinstance(v, (int, SymInt)):
                raise error("required argument is not an integer")
            lo, hi = (-(1 << (8 * size - 1)), (1 << (8 * size - 1)) - 1) if signed else (0, (1 << (8 * size)) - 1)
            if isinstance(v, int):
                its = list(_s.pack("<" + ch, v))
            else:
                if v.lo < lo or v.hi > hi:
                    if bool(core.truth(core.sym_or(v < lo, v > hi))):
                        raise error("argument out of range")
                import z3
                e = v.lowbits(8 * size)
                its = [core.mk_int(z3.ZeroExt(1, z3.Extract(8 * i + 7, 8 * i, e)), 0, 255) for i in range(size)]
            if big:
                its.reverse()
            out.extend(its)
        else:
            raise EngineError("struct format char %r not modelled" % ch)
    return mk_seq("bytes", out)


def unpack(fmt, data):
    if isinstance(fmt, SymSeq):
        raise TypeError("Struct() argument 1 must be a str or bytes object")
    _fmt_ok(fmt)
    if not isinstance(data, SymSeq):
        return _s.unpack(fmt, data)
    if data.kind == "str":
        raise TypeError("a bytes-like object is required, not 'str'")
    big, toks = _parse(fmt)
    total = sum((cnt if ch in "sp" else (1 if ch in "x?c" else _INT[ch][0])) for ch, cnt in toks)
    items = data.items
    if len(items) != total:
        raise error("unpack requires a buffer of %d bytes" % total)
    out = []
    pos = 0
    import z3
    for ch, cnt in toks:
        if ch == "x":
            pos += 1
        elif ch == "s":
            out.append(mk_seq("bytes", items[pos:pos + cnt]))
            pos += cnt
        elif ch == "?":
            b = items[pos]
            pos += 1
            out.append(b != 0)
        elif ch in _INT:
            size, signed = _INT[ch]
            its = items[pos:pos + size]
            pos += size
            if not big:
                its = list(reversed(its))
            parts = [z3.BitVecVal(i, 8) if isinstance(i, int) else i.lowbits(8) for i in its]
            e = z3.Concat(*parts) if len(parts) > 1 else parts[0]
            if signed:
                out.append(core.mk_int(e, -(1 << (8 * size - 1)), (1 << (8 * size - 1)) - 1))
            else:
                out.append(core.mk_int(z3.ZeroExt(1, e), 0, (1 << (8 * size)) - 1))
        else:
            raise EngineError("struct format char %r not modelled" % ch)
    return tuple(out)


def unpack_from(fmt, data, offset=0):
    n = calcsize(fmt)
    return unpack(fmt, data[offset:offset + n])
