"""hashlib / hmac stubs.  With fully concrete input the real digest is used.  With symbolic
input the digest is an application of an uninterpreted function H_<alg>_<len> (functional
consistency only) - the standard 'hash = random oracle with no visible structure' contract.
In concrete (replay) mode the real functions are used, so counterexamples are replayed
against real SHA-256 etc."""
from __future__ import annotations

import hashlib as _h
import hmac as _hmac

from .. import core
from ..core import SymInt, EngineError
from ..seq import SymSeq, mk_seq, items_of
from .. import seq as _seq

algorithms_available = set(_h.algorithms_available) | {"ripemd160"}
algorithms_guaranteed = _h.algorithms_guaranteed
pbkdf2_hmac = _h.pbkdf2_hmac

_SIZES = {"sha256": (32, 64), "sha1": (20, 64), "sha512": (64, 128), "ripemd160": (20, 64), "md5": (16, 64),
          "sha224": (28, 64), "sha384": (48, 128), "sha3_256": (32, 136)}

_UF = {}
LOG = []  # (alg, input items) of every symbolic application on the current path (harness may inspect)


NONZERO_DIGESTS = False


def _real_new(alg, data=b""):
    if alg == "ripemd160":
        try:
            return _h.new("ripemd160", data)
        except Exception:
            raise EngineError("native ripemd160 unavailable")
    return _h.new(alg, data)


def uf_apply(tag, items, out_len):
    """H_tag_len(items) -> SymSeq of out_len bytes (or real digest via `tag` hook when concrete)"""
    import z3
    n = len(items)
    key = (tag, n, out_len)
    f = _UF.get(key)
    if f is None:
        f = z3.Function("H_%s_%d" % (tag, n), z3.BitVecSort(8 * n), z3.BitVecSort(8 * out_len))
        _UF[key] = f
    arg = core.concat_bytes(items)
    r = f(arg)
    ex = core.CUR
    if ex is not None:
        ex.uf_apps.append((tag, list(items)))
        if NONZERO_DIGESTS and tag == "sha256":
            # environment assumption a harness may switch on (and must list): no SHA-256 digest is all-zero (no such pre-image is known)
            c = r != z3.BitVecVal(0, 8 * out_len)
            if not any(c.eq(x) for x in ex.pc[-64:]):
                ex.pc.append(c)
    app_id = len(_seq.UF_APPS)
    _seq.UF_APPS.append((tag, list(items), out_len))
    out = []
    for i in range(out_len):
        hi = 8 * (out_len - i) - 1
        b = core.mk_int(z3.ZeroExt(1, z3.Extract(hi, hi - 7, r)), 0, 255)
        if isinstance(b, SymInt):
            _seq.UF_SRC[b.e.get_id()] = (b.e, app_id, i)
        out.append(b)
    if len(_seq.UF_SRC) > 400000:
        _seq.UF_SRC.clear()
        del _seq.UF_APPS[:]
    return SymSeq("bytes", out)


def _bind_point(tag, items, digest):
    """a concrete evaluation: the uninterpreted function agrees with the real hash at this point"""
    ex = core.CUR
    if ex is None or not items:
        return
    import z3
    n = len(items)
    key = (tag, n, len(digest))
    f = _UF.get(key)
    if f is None:
        return          # never applied symbolically so far on any path: nothing to bind
    if n > 200:
        return
    ex.pc.append(f(z3.BitVecVal(int.from_bytes(bytes(items), "big"), 8 * n)) == z3.BitVecVal(int.from_bytes(digest, "big"), 8 * len(digest)))
    ex.model = None
    ex._ensure_model()      # the path so far may have assumed another value for this hash: then it is infeasible


class _Hash:
    def __init__(self, alg, data=b""):
        alg = alg.lower()
        if alg not in _SIZES:
            raise ValueError("unsupported hash type " + alg)
        self.name = alg
        self.digest_size, self.block_size = _SIZES[alg]
        self._items = []
        self.update(data)

    def update(self, data):
        if isinstance(data, str) or (isinstance(data, SymSeq) and data.kind == "str"):
            raise TypeError("Strings must be encoded before hashing")
        self._items.extend(items_of(data))

    def copy(self):
        c = _Hash(self.name)
        c._items = list(self._items)
        return c

    def digest(self):
        if all(isinstance(i, int) for i in self._items):
            d = _real_new(self.name, bytes(self._items)).digest()
            _bind_point(self.name, self._items, d)
            return d
        return uf_apply(self.name, self._items, self.digest_size)

    def hexdigest(self):
        d = self.digest()
        return d.hex()


def new(name, data=b"", **kw):
    return _Hash(name, data)


def _mk(alg):
    def ctor(data=b"", **kw):
        return _Hash(alg, data)
    ctor.__name__ = alg
    ctor._symx_alg = alg
    return ctor


sha256 = _mk("sha256")
sha1 = _mk("sha1")
sha512 = _mk("sha512")
md5 = _mk("md5")
sha224 = _mk("sha224")
sha384 = _mk("sha384")


# ---- hmac ------------------------------------------------------------------------------------------

def _alg_of(digestmod):
    if isinstance(digestmod, str):
        return digestmod.lower()
    a = getattr(digestmod, "_symx_alg", None)
    if a:
        return a
    n = getattr(digestmod, "__name__", "")
    if n.startswith("openssl_"):
        n = n[len("openssl_"):]
    if n in _SIZES:
        return n
    raise EngineError("hmac digestmod %r not recognised" % (digestmod,))


class HMAC:
    def __init__(self, key, msg=None, digestmod=None):
        if digestmod is None:
            raise TypeError("Missing required parameter 'digestmod'.")
        self._alg = _alg_of(digestmod)
        self.digest_size, self.block_size = _SIZES[self._alg]
        self.name = "hmac-" + self._alg
        self._key = list(items_of(key))
        self._items = []
        if msg is not None:
            self.update(msg)

    def update(self, msg):
        self._items.extend(items_of(msg))

    def copy(self):
        c = HMAC.__new__(HMAC)
        c._alg, c.digest_size, c.block_size, c.name = self._alg, self.digest_size, self.block_size, self.name
        c._key = list(self._key)
        c._items = list(self._items)
        return c

    def digest(self):
        if all(isinstance(i, int) for i in self._key + self._items):
            return _hmac.new(bytes(self._key), bytes(self._items), self._alg).digest()
        # one UF per (alg, key length, message length): argument is key || msg
        return uf_apply("hmac_%s_k%d" % (self._alg, len(self._key)), self._key + self._items, self.digest_size)

    def hexdigest(self):
        return self.digest().hex()


def hmac_new(key, msg=None, digestmod=None):
    return HMAC(key, msg, digestmod)


def compare_digest(a, b):
    return bool(a == b)


def hmac_digest(key, msg, digest):
    return HMAC(key, msg, digest).digest()
