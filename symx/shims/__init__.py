"""Exact models of the C-implemented stdlib modules pycoin calls (struct, binascii, io) and
contract-only stubs for hashing (hashlib, hmac).  Each function defers to the real module
when its arguments are concrete."""
