from __future__ import annotations

import io as _io

from .. import core
from ..core import SymInt, SymBool, EngineError
from ..seq import SymSeq, mk_seq, items_of

StringIO = _io.StringIO
IOBase = _io.IOBase
RawIOBase = _io.RawIOBase
BufferedIOBase = _io.BufferedIOBase
TextIOWrapper = _io.TextIOWrapper
BufferedReader = _io.BufferedReader
SEEK_SET, SEEK_CUR, SEEK_END = 0, 1, 2
UnsupportedOperation = _io.UnsupportedOperation
open = _io.open


class BytesIO:
    """pure-Python BytesIO over a list of (possibly symbolic) byte items"""

    def __init__(self, initial=b""):
        self._items = list(items_of(initial)) if initial is not None else []
        self._pos = 0
        self.closed = False

    def _n(self, n):
        if isinstance(n, (SymInt, SymBool)):
            n = core.cur().concretize(n)
        return n

    def read(self, n=-1):
        n = self._n(n)
        if n is None or n < 0:
            n = len(self._items)
        chunk = self._items[self._pos:self._pos + n]
        self._pos += len(chunk)
        return mk_seq("bytes", chunk)

    read1 = read

    def readinto(self, b):
        raise EngineError("BytesIO.readinto not modelled")

    def write(self, b):
        its = list(items_of(b))
        if isinstance(b, str) or (isinstance(b, SymSeq) and b.kind == "str"):
            raise TypeError("a bytes-like object is required, not 'str'")
        if self._pos > len(self._items):
            self._items.extend([0] * (self._pos - len(self._items)))
        self._items[self._pos:self._pos + len(its)] = its
        self._pos += len(its)
        return len(its)

    def tell(self):
        return self._pos

    def seek(self, pos, whence=0):
        pos = self._n(pos)
        if whence == 0:
            if pos < 0:
                raise ValueError("negative seek value %d" % pos)
            self._pos = pos
        elif whence == 1:
            self._pos = max(0, self._pos + pos)
        else:
            self._pos = max(0, len(self._items) + pos)
        return self._pos

    def getvalue(self):
        return mk_seq("bytes", self._items)

    def getbuffer(self):
        return self.getvalue()

    def truncate(self, size=None):
        size = self._pos if size is None else self._n(size)
        del self._items[size:]
        return size

    def close(self):
        self.closed = True

    def flush(self):
        pass

    def readable(self):
        return True

    writable = seekable = readable

    def __enter__(self):
        return self

    def __exit__(self, *a):
        self.close()

    def readline(self, size=-1):
        i = self._pos
        while i < len(self._items):
            it = self._items[i]
            i += 1
            if bool(core.truth(it == 10)):
                break
        chunk = self._items[self._pos:i]
        self._pos = i
        return mk_seq("bytes", chunk)

    def __iter__(self):
        while True:
            l = self.readline()
            if not len(l):
                return
            yield l
