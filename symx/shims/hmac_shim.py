from .hashlib_shim import HMAC, hmac_new as new, compare_digest, hmac_digest as digest  # noqa
