from __future__ import annotations

import binascii as _ba

from .. import core
from ..core import SymInt, EngineError, ite, sym_and, sym_or, truth
from ..seq import SymSeq, mk_seq, items_of, hex_items

Error = _ba.Error
Incomplete = _ba.Incomplete
crc32 = _ba.crc32


def hexlify(data, *a):
    if isinstance(data, SymSeq):
        if a:
            raise EngineError("hexlify with separator")
        return mk_seq("bytes", hex_items(data.items))
    return _ba.hexlify(data, *a)


b2a_hex = hexlify


def _nibble(it, exc):
    from ..seq import hex_source
    src = hex_source(it)
    if src is not None:
        return src
    if isinstance(it, int):
        c = chr(it)
        if c in "0123456789abcdefABCDEF":
            return int(c, 16)
        raise exc
    is_dec = sym_and(it >= 48, it <= 57)
    is_lo = sym_and(it >= 97, it <= 102)
    is_up = sym_and(it >= 65, it <= 70)
    if not bool(truth(sym_or(is_dec, is_lo, is_up))):
        raise exc
    return ite(is_dec, it - 48, ite(is_lo, it - 87, it - 55))


def unhexlify(s, _for_fromhex=False):
    if isinstance(s, SymSeq):
        items = s.items
        if s.kind == "str":
            for it in items:
                hi = it if isinstance(it, int) else it.hi
                if hi >= 128:
                    if isinstance(it, int) or core.cur().branch((it >= 128).e):
                        raise ValueError("string argument should contain only ASCII characters")
        if _for_fromhex:
            exc = ValueError("non-hexadecimal number found in fromhex() arg")
            from ..seq import _is_space
            for it in items:
                if bool(truth(_is_space(it))):
                    raise EngineError("bytes.fromhex with whitespace in symbolic text is not modelled")
        else:
            exc = Error("Non-hexadecimal digit found")
        if len(items) % 2:
            if _for_fromhex:
                # fromhex reports the first bad char or the odd length; both ValueError
                for it in items:
                    _nibble(it, exc)
                raise exc
            raise Error("Odd-length string")
        out = []
        for i in range(0, len(items), 2):
            h = _nibble(items[i], exc)
            l = _nibble(items[i + 1], exc)
            out.append(h * 16 + l)
        return mk_seq("bytes", out)
    return _ba.unhexlify(s)


a2b_hex = unhexlify

_B64 = b"ABCDEFGHIJKLMNOPQRSTUVWXYZabcdefghijklmnopqrstuvwxyz0123456789+/"


def b2a_base64(data, *, newline=True):
    if not isinstance(data, SymSeq):
        return _ba.b2a_base64(data, newline=newline)
    items = data.items
    out = []
    from ..seq import sym_index

    def enc(v):
        if isinstance(v, int):
            return _B64[v]
        return ite(v < 26, v + 65, ite(v < 52, v + 71, ite(v < 62, v - 4, ite(v == 62, 43, 47))))
    for i in range(0, len(items), 3):
        chunk = items[i:i + 3]
        n = len(chunk)
        b0 = chunk[0]
        b1 = chunk[1] if n > 1 else 0
        b2 = chunk[2] if n > 2 else 0
        out.append(enc(b0 >> 2))
        out.append(enc(((b0 & 3) << 4) | (b1 >> 4)))
        out.append(enc(((b1 & 15) << 2) | (b2 >> 6)) if n > 1 else 61)
        out.append(enc(b2 & 63) if n > 2 else 61)
    if newline:
        out.append(10)
    return mk_seq("bytes", out)


def _b64val(it):
    """-> value 0..63, or None for characters the lenient decoder skips, or 'pad' (forks)"""
    if isinstance(it, int):
        if it == 61:
            return "pad"
        i = _B64.find(bytes([it]))
        return i if i >= 0 else None
    if bool(truth(it == 61)):
        return "pad"
    up = sym_and(it >= 65, it <= 90)
    lo = sym_and(it >= 97, it <= 122)
    dg = sym_and(it >= 48, it <= 57)
    pl = it == 43
    sl = it == 47
    if not bool(truth(sym_or(up, lo, dg, pl, sl))):
        return None
    return ite(up, it - 65, ite(lo, it - 71, ite(dg, it + 4, ite(pl, 62, 63))))


def a2b_base64(data, *, strict_mode=False):
    if not isinstance(data, SymSeq):
        return _ba.a2b_base64(data, strict_mode=strict_mode) if strict_mode else _ba.a2b_base64(data)
    if strict_mode:
        raise EngineError("a2b_base64 strict mode not modelled")
    if data.kind == "str":
        for it in data.items:
            hi = it if isinstance(it, int) else it.hi
            if hi >= 128 and (isinstance(it, int) or core.cur().branch((it >= 128).e)):
                raise ValueError("string argument should contain only ASCII characters")
    # CPython's lenient decoder: skip non-alphabet characters; '=' ends the data when it appears
    # where padding is allowed (quad position >= 2), otherwise it is skipped.
    out = []
    quad_pos = 0
    leftchar = 0
    pads = 0
    done = False
    for it in data.items:
        v = _b64val(it)
        if v == "pad":
            if quad_pos >= 2 and quad_pos + 1 + pads >= 4:
                # second pad for pos==2 or single pad for pos==3
                done = True
                quad_pos = 0
                break
            if quad_pos >= 2:
                pads += 1
            continue
        if v is None:
            continue
        pads = 0
        if quad_pos == 0:
            quad_pos = 1
            leftchar = v
        elif quad_pos == 1:
            quad_pos = 2
            out.append((leftchar << 2) | (v >> 4))
            leftchar = v & 0x0F
        elif quad_pos == 2:
            quad_pos = 3
            out.append((leftchar << 4) | (v >> 2))
            leftchar = v & 0x03
        else:
            quad_pos = 0
            out.append((leftchar << 6) | v)
            leftchar = 0
    if quad_pos != 0 and not done:
        if quad_pos == 1:
            raise Error("Invalid base64-encoded string: number of data characters cannot be 1 more than a multiple of 4")
        raise Error("Incorrect padding")
    return mk_seq("bytes", out)
