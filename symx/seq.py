"""symx.seq - byte strings, byte arrays and text whose elements may be symbolic.

A SymSeq has a concrete length and a Python list of items (int or SymInt).  It deliberately
does NOT subclass bytes/str: handing one to C code fails loudly instead of silently using
wrong contents.
"""
from __future__ import annotations

from . import core
from .core import SymInt, SymBool, EngineError, ite, sym_and, sym_or, sym_not, truth

try:
    import z3
except ImportError:
    z3 = None


def _is_bytes_like(x):
    return isinstance(x, (bytes, bytearray)) or (isinstance(x, SymSeq) and x.kind != "str")


def items_of(x):
    if isinstance(x, SymSeq):
        return x.items
    if isinstance(x, (bytes, bytearray)):
        return list(x)
    if isinstance(x, str):
        return [ord(c) for c in x]
    if isinstance(x, memoryview):
        return list(x.tobytes())
    raise TypeError("not a sequence of code units: %r" % type(x))


def kind_of(x):
    if isinstance(x, SymSeq):
        return x.kind
    if isinstance(x, bytearray):
        return "bytearray"
    if isinstance(x, bytes):
        return "bytes"
    if isinstance(x, str):
        return "str"
    raise TypeError(type(x))


def mk_seq(kind, items, tag=None):
    """bytes/str come back as real objects when fully concrete; bytearray is always a SymSeq"""
    if kind == "bytearray":
        return SymSeq(kind, list(items))
    for it in items:
        if not isinstance(it, int):
            return SymSeq(kind, list(items), tag)
    if kind == "bytes":
        b = bytes(items)
        return tag.real(b) if tag is not None else b
    return "".join(map(chr, items))


class SymSeq:
    _symx_symbolic = True
    __slots__ = ("kind", "items", "tag")

    def __init__(self, kind, items, tag=None):
        self.kind = kind
        self.items = items
        self.tag = tag

    def _new(self, items, kind=None):
        k = kind or self.kind
        return mk_seq(k, items, self.tag if k == self.kind else None)

    def concrete(self):
        return all(isinstance(i, int) for i in self.items)

    def to_concrete(self):
        if not self.concrete():
            raise EngineError("symbolic sequence needs concrete content here")
        return bytes(self.items) if self.kind != "str" else "".join(map(chr, self.items))

    def __getattr__(self, name):
        if name.startswith("__"):
            raise AttributeError(name)
        raise EngineError("SymSeq(%s) has no model for attribute %r" % (self.kind, name))

    # -- basics ---------------------------------------------------------------------------------
    def __len__(self):
        return len(self.items)

    def __bool__(self):
        return len(self.items) > 0

    def __iter__(self):
        if self.kind == "str":
            return iter([mk_seq("str", [i]) for i in self.items])
        return iter(list(self.items))

    def __reversed__(self):
        it = list(reversed(self.items))
        if self.kind == "str":
            return iter([mk_seq("str", [i]) for i in it])
        return iter(it)

    def __repr__(self):
        return "<Sym%s len=%d>" % (self.kind, len(self.items))

    def __str__(self):
        if self.kind == "str":
            return "<SymStr len=%d>" % len(self.items)
        return repr(self)

    def __format__(self, spec):
        return "<sym>"

    def __hash__(self):
        if self.concrete():
            return hash(self.to_concrete())
        raise EngineError("hash() of a symbolic %s (use SymDict for tables keyed by symbolic data)" % self.kind)

    def __getitem__(self, i):
        n = len(self.items)
        if isinstance(i, slice):
            return self._new(self.items[_conc_slice(i, n)])
        if isinstance(i, (SymInt, SymBool)):
            return sym_index(self, i)
        it = self.items[i]
        if self.kind == "str":
            return mk_seq("str", [it])
        return it

    def __setitem__(self, i, v):
        if self.kind != "bytearray":
            raise TypeError("'%s' object does not support item assignment" % self.kind)
        if isinstance(i, slice):
            self.items[_conc_slice(i, len(self.items))] = items_of(v)
            return
        if isinstance(i, (SymInt, SymBool)):
            i = core.cur().concretize(i)
        self.items[i] = _byte(v)

    def __delitem__(self, i):
        if self.kind != "bytearray":
            raise TypeError("immutable")
        if isinstance(i, slice):
            del self.items[_conc_slice(i, len(self.items))]
        else:
            del self.items[int(i)]

    def __add__(self, o):
        if isinstance(o, SymSeq) or isinstance(o, (bytes, bytearray, str)):
            if (self.kind == "str") != (kind_of(o) == "str"):
                raise TypeError("can't concat %s to %s" % (kind_of(o), self.kind))
            return self._new(self.items + items_of(o))
        return NotImplemented

    def __radd__(self, o):
        if isinstance(o, (bytes, bytearray, str)):
            if (self.kind == "str") != (kind_of(o) == "str"):
                raise TypeError("can't concat")
            return mk_seq(kind_of(o), items_of(o) + self.items)
        return NotImplemented

    def __iadd__(self, o):
        if self.kind == "bytearray":
            self.items.extend(items_of(o))
            return self
        return self.__add__(o)

    def __mul__(self, n):
        n = int(n)
        return self._new(self.items * n)

    __rmul__ = __mul__

    def __mod__(self, args):
        raise EngineError("%-formatting with a symbolic format string")

    # -- comparisons ----------------------------------------------------------------------------
    def _cmp_ok(self, o):
        if isinstance(o, SymSeq):
            return (self.kind == "str") == (o.kind == "str")
        if self.kind == "str":
            return isinstance(o, str)
        return isinstance(o, (bytes, bytearray))

    def __eq__(self, o):
        if not self._cmp_ok(o):
            return False
        return seq_eq(self.items, items_of(o))

    def __ne__(self, o):
        return sym_not(self.__eq__(o))

    def __lt__(self, o):
        if not self._cmp_ok(o):
            return NotImplemented
        return seq_lt(self.items, items_of(o), False)

    def __le__(self, o):
        if not self._cmp_ok(o):
            return NotImplemented
        return seq_lt(self.items, items_of(o), True)

    def __gt__(self, o):
        if not self._cmp_ok(o):
            return NotImplemented
        return seq_lt(items_of(o), self.items, False)

    def __ge__(self, o):
        if not self._cmp_ok(o):
            return NotImplemented
        return seq_lt(items_of(o), self.items, True)

    def __contains__(self, x):
        if isinstance(x, (int, SymInt)) and self.kind != "str":
            return bool(sym_or(*[it == x for it in self.items]))
        xs = items_of(x)
        n = len(xs)
        if n == 0:
            return True
        if n == 1:
            if self.concrete() and table_source(xs[0], self.to_concrete()) is not None:
                return True
            return bool(truth(sym_or(*[it == xs[0] for it in self.items]))) if self.items else False
        for i in range(len(self.items) - n + 1):
            if seq_eq(self.items[i:i + n], xs):
                return True
        return False

    # -- searching -------------------------------------------------------------------------------
    def startswith(self, p, start=0):
        if isinstance(p, tuple):
            return bool(sym_or(*[self._starts(q, start) for q in p]))
        return self._starts(p, start)

    def _starts(self, p, start=0):
        ps = items_of(p)
        seg = self.items[start:start + len(ps)]
        if len(seg) != len(ps):
            return False
        return seq_eq(seg, ps)

    def endswith(self, p):
        if isinstance(p, tuple):
            return bool(sym_or(*[self.endswith(q) for q in p]))
        ps = items_of(p)
        if len(ps) > len(self.items):
            return False
        return seq_eq(self.items[len(self.items) - len(ps):], ps)

    def find(self, sub, start=0, end=None):
        n = len(self.items)
        if isinstance(sub, (int, SymInt)):
            xs = [sub]
        else:
            xs = items_of(sub)
        start, end, _ = slice(start, end).indices(n)
        for i in range(start, end - len(xs) + 1):
            if seq_eq(self.items[i:i + len(xs)], xs):
                return i
        return -1

    def rfind(self, sub, start=0, end=None):
        n = len(self.items)
        xs = [sub] if isinstance(sub, (int, SymInt)) else items_of(sub)
        start, end, _ = slice(start, end).indices(n)
        for i in range(end - len(xs), start - 1, -1):
            if seq_eq(self.items[i:i + len(xs)], xs):
                return i
        return -1

    def index(self, sub, start=0, end=None):
        r = self.find(sub, start, end)
        if r < 0:
            raise ValueError("subsection not found")
        return r

    def count(self, sub):
        xs = [sub] if isinstance(sub, (int, SymInt)) else items_of(sub)
        c = 0
        i = 0
        n = len(xs)
        while i + n <= len(self.items):
            if seq_eq(self.items[i:i + n], xs):
                c += 1
                i += max(n, 1)
            else:
                i += 1
        return c

    # -- transformations --------------------------------------------------------------------------
    def join(self, parts):
        out = []
        first = True
        for p in parts:
            if not first:
                out.extend(self.items)
            first = False
            out.extend(items_of(p))
        return self._new(out)

    def hex(self):
        return mk_seq("str", hex_items(self.items))

    def decode(self, enc="utf-8", errors="strict"):
        e = enc.lower().replace("-", "")
        if e in ("utf8", "ascii", "latin1", "iso88591"):
            if e != "latin1" and e != "iso88591":
                for it in self.items:
                    if isinstance(it, int):
                        if it >= 128:
                            raise EngineError("non-ASCII byte in symbolic decode")
                    elif it.hi >= 128:
                        if bool(truth(it >= 128)):
                            if e == "ascii":
                                raise UnicodeDecodeError("ascii", b"", 0, 1, "ordinal not in range(128)")
                            raise EngineError("non-ASCII utf-8 decode of symbolic bytes is not modelled")
            return mk_seq("str", list(self.items))
        raise EngineError("decode(%r) not modelled" % enc)

    def encode(self, enc="utf-8", errors="strict"):
        e = enc.lower().replace("-", "")
        out = []
        for it in self.items:
            hi = it if isinstance(it, int) else it.hi
            if hi >= 128:
                if isinstance(it, int) or bool(truth(it >= 128)):
                    if e == "ascii":
                        raise UnicodeEncodeError("ascii", "", 0, 1, "ordinal not in range(128)")
                    if e == "utf8":
                        out.extend(_utf8_items(it))
                        continue
                    raise EngineError("encode(%r) of non-ASCII symbolic text" % enc)
            if not isinstance(it, int) and it.hi >= 128:
                it = SymInt(it.e, it.lo, 127)
            out.append(it)
        if e not in ("utf8", "ascii", "latin1"):
            raise EngineError("encode(%r) not modelled" % enc)
        return mk_seq("bytes", out)

    def lower(self):
        return self._new([_lower(i, self.kind == "str") for i in self.items])

    def upper(self):
        return self._new([_upper(i, self.kind == "str") for i in self.items])

    def _class(self, pred):
        if not self.items:
            return False
        return bool(sym_and(*[pred(i) for i in self.items]))

    def isdigit(self):
        return self._class(lambda i: sym_and(i >= 48, i <= 57))

    def isalnum(self):
        return self._class(lambda i: sym_or(sym_and(i >= 48, i <= 57), sym_and(i >= 65, i <= 90), sym_and(i >= 97, i <= 122)))

    def isspace(self):
        return self._class(_is_space)

    def strip(self, chars=None):
        return self.lstrip(chars).rstrip(chars) if True else None

    def lstrip(self, chars=None):
        pred = _is_space if chars is None else (lambda i, cs=items_of(chars): sym_or(*[i == c for c in cs]))
        k = 0
        while k < len(self.items) and bool(truth(pred(self.items[k]))):
            k += 1
        return self._new(self.items[k:])

    def rstrip(self, chars=None):
        pred = _is_space if chars is None else (lambda i, cs=items_of(chars): sym_or(*[i == c for c in cs]))
        k = len(self.items)
        while k > 0 and bool(truth(pred(self.items[k - 1]))):
            k -= 1
        return self._new(self.items[:k])

    def split(self, sep=None, maxsplit=-1):
        if sep is None:
            # whitespace split (forks per character)
            out, curp = [], []
            for it in self.items:
                if bool(truth(_is_space(it))):
                    if curp:
                        out.append(self._new(curp))
                        curp = []
                else:
                    curp.append(it)
            if curp:
                out.append(self._new(curp))
            if maxsplit >= 0 and len(out) > maxsplit + 1:
                raise EngineError("split(None, maxsplit) not modelled")
            return out
        ss = items_of(sep)
        if not ss:
            raise ValueError("empty separator")
        out = []
        i = 0
        start = 0
        n = len(ss)
        while i + n <= len(self.items):
            if (maxsplit < 0 or len(out) < maxsplit) and bool(truth(seq_eq(self.items[i:i + n], ss))):
                out.append(self._new(self.items[start:i]))
                i += n
                start = i
            else:
                i += 1
        out.append(self._new(self.items[start:]))
        return out

    def rsplit(self, sep=None, maxsplit=-1):
        if maxsplit < 0:
            return self.split(sep)
        ss = items_of(sep)
        n = len(ss)
        out = []
        end = len(self.items)
        i = end - n
        while i >= 0:
            if len(out) < maxsplit and bool(truth(seq_eq(self.items[i:i + n], ss))):
                out.append(self._new(self.items[i + n:end]))
                end = i
                i -= n
            else:
                i -= 1
        out.append(self._new(self.items[:end]))
        out.reverse()
        return out

    def partition(self, sep):
        i = self.find(sep)
        if i < 0:
            return (self, self._new([]), self._new([]))
        n = len(items_of(sep))
        return (self._new(self.items[:i]), self._new(self.items[i:i + n]), self._new(self.items[i + n:]))

    def replace(self, old, new, count=-1):
        parts = self.split(old, count)
        return mk_seq(self.kind, []).join(parts) if False else _join_items(self, items_of(new), parts)

    def splitlines(self):
        raise EngineError("splitlines not modelled")

    def zfill(self, n):
        pad = max(0, n - len(self.items))
        return self._new([48] * pad + self.items)

    def rjust(self, n, fill=" "):
        pad = max(0, n - len(self.items))
        return self._new(items_of(fill) * pad + self.items)

    def ljust(self, n, fill=" "):
        pad = max(0, n - len(self.items))
        return self._new(self.items + items_of(fill) * pad)

    # -- bytearray mutation -----------------------------------------------------------------------
    def append(self, v):
        self._mut()
        self.items.append(_byte(v))

    def extend(self, vs):
        self._mut()
        self.items.extend(_byte(v) for v in (items_of(vs) if _is_bytes_like(vs) else vs))

    def reverse(self):
        self._mut()
        self.items.reverse()

    def pop(self, i=-1):
        self._mut()
        return self.items.pop(i)

    def insert(self, i, v):
        self._mut()
        self.items.insert(i, _byte(v))

    def clear(self):
        self._mut()
        del self.items[:]

    def copy(self):
        return SymSeq(self.kind, list(self.items), self.tag)

    def _mut(self):
        if self.kind != "bytearray":
            raise AttributeError("'%s' object is immutable" % self.kind)


def _join_items(proto, sep_items, parts):
    out = []
    first = True
    for p in parts:
        if not first:
            out.extend(sep_items)
        first = False
        out.extend(items_of(p))
    return mk_seq(proto.kind, out)


def _conc_slice(s, n=None):
    if n is not None:
        return clip_slice(s, n)

    def c(v):
        if isinstance(v, (SymInt, SymBool)):
            return core.cur().concretize(v)
        return v
    return slice(c(s.start), c(s.stop), c(s.step))


def clip_slice(s, n):
    """slice with symbolic bounds on a sequence of length n: only the bounds clipped to [0, n]
    matter, so fork over those (at most n+1 values each) instead of over the raw values"""
    step = s.step
    if isinstance(step, (SymInt, SymBool)):
        step = core.cur().concretize(step)
    if step is not None and step < 0:
        def c(v):
            return core.cur().concretize(v) if isinstance(v, (SymInt, SymBool)) else v
        return slice(c(s.start), c(s.stop), step)

    def clip(v):
        if isinstance(v, SymBool):
            v = v._int()
        if isinstance(v, SymInt):
            w = ite(v < 0, ite(v + n < 0, 0, v + n), ite(v > n, n, v))
            return core.cur().concretize(w)
        return v
    return slice(clip(s.start), clip(s.stop), step)


def _byte(v):
    if isinstance(v, SymBool):
        v = v._int()
    if isinstance(v, SymInt):
        if v.lo < 0 or v.hi > 255:
            if bool(truth(sym_or(v < 0, v > 255))):
                raise ValueError("byte must be in range(0, 256)")
            v = SymInt(v.e, max(v.lo, 0), min(v.hi, 255))
            v = core.mk_int(v.e, v.lo, v.hi)
        return v
    v = int(v)
    if not 0 <= v <= 255:
        raise ValueError("byte must be in range(0, 256)")
    return v


UF_SRC = {}    # id(byte expr) -> (expr kept alive, application id, byte index) for bytes of uninterpreted-hash outputs
UF_APPS = []   # application id -> (tag, argument items, output length)


def _uf_run(items, i):
    """if items[i:] starts with the complete output of one hash application, return its id"""
    it = items[i]
    if not isinstance(it, SymInt):
        return None
    r = UF_SRC.get(it.e.get_id())
    if r is None or r[2] != 0:
        return None
    app = r[1]
    n = UF_APPS[app][2]
    if i + n > len(items):
        return None
    for k in range(1, n):
        x = items[i + k]
        if not isinstance(x, SymInt):
            return None
        rk = UF_SRC.get(x.e.get_id())
        if rk is None or rk[1] != app or rk[2] != k:
            return None
    return app


def seq_eq(a, b):
    if len(a) != len(b):
        return False
    ex = core.CUR
    if ex is not None and getattr(ex, "collision_free", False) and UF_SRC:
        return _seq_eq_injective(a, b)
    cs = []
    for x, y in zip(a, b):
        if isinstance(x, int) and isinstance(y, int):
            if x != y:
                return False
        else:
            c = (x == y)
            if c is False:
                return False
            if c is not True:
                cs.append(c)
    return sym_and(*cs)


def _seq_eq_injective(a, b):
    """equality under the stated assumption 'no collision among occurring hash inputs':
    H(x) == H(y) is x == y (hash outputs behave like an injective constructor)"""
    cs = []
    i = 0
    n = len(a)
    while i < n:
        ra = _uf_run(a, i)
        rb = _uf_run(b, i) if ra is not None else None
        if ra is not None and rb is not None:
            ta, ia, na = UF_APPS[ra]
            tb, ib, nb = UF_APPS[rb]
            if ta == tb and na == nb:
                if ra != rb:
                    c = _seq_eq_injective(ia, ib) if len(ia) == len(ib) else False
                    if c is False:
                        return False
                    if c is not True:
                        cs.append(c)
                i += na
                continue
        x, y = a[i], b[i]
        if isinstance(x, int) and isinstance(y, int):
            if x != y:
                return False
        else:
            c = (x == y)
            if c is False:
                return False
            if c is not True:
                cs.append(c)
        i += 1
    return sym_and(*cs)


def _seq_eq_plain(a, b):
    cs = []
    for x, y in zip(a, b):
        if isinstance(x, int) and isinstance(y, int):
            if x != y:
                return False
        else:
            c = (x == y)
            if c is False:
                return False
            if c is not True:
                cs.append(c)
    return sym_and(*cs)


def seq_lt(a, b, or_equal):
    """lexicographic a < b (or <=)"""
    r = (len(a) <= len(b)) if or_equal else (len(a) < len(b))
    for x, y in reversed(list(zip(a, b))):
        r = ite(x < y, True, ite(x > y, False, r))
    return r


def sym_index(seq, i):
    """seq[i] for symbolic i over any concrete-length indexable (no fork except range check)"""
    n = len(seq)
    lo, hi = (i.lo, i.hi) if isinstance(i, SymInt) else (0, 1)
    if isinstance(i, SymBool):
        i = i._int()
    if lo < -n or hi >= n:
        if bool(truth(sym_or(i < -n, i >= n))):
            raise IndexError("index out of range")
        lo, hi = max(lo, -n), min(hi, n - 1)
    if lo < 0:
        if hi < 0:
            i = i + n
        else:
            i = ite(i < 0, i + n, i)
        lo, hi = 0, n - 1
    items = seq.items if isinstance(seq, SymSeq) else (items_of(seq) if isinstance(seq, (bytes, bytearray, str)) else list(seq))
    if not all(isinstance(x, (int, SymInt, SymBool)) for x in items[lo:hi + 1]):
        # heterogeneous payload: fall back to concretising the index
        return seq[core.cur().concretize(i)]
    r = items[hi]
    for k in range(hi - 1, lo - 1, -1):
        r = ite(i == k, items[k], r)
    if isinstance(seq, (str, bytes)) and isinstance(r, SymInt) and len(set(seq)) == len(seq):
        # provenance: r IS seq[i]; with distinct table entries, seq.find(r) is i again (used by decoders of the same table)
        if len(TABLE_SRC) > 200000:
            TABLE_SRC.clear()
        TABLE_SRC[r.e.get_id()] = (r.e, seq, i)
    if isinstance(seq, str) or (isinstance(seq, SymSeq) and seq.kind == "str"):
        return mk_seq("str", [r])
    return r


TABLE_SRC = {}


def table_source(ch, table):
    if isinstance(ch, SymInt):
        r = TABLE_SRC.get(ch.e.get_id())
        if r is not None and r[1] == table:
            return r[2]
    return None


def _table_of(ch):
    if isinstance(ch, SymInt):
        r = TABLE_SRC.get(ch.e.get_id())
        if r is not None:
            return r[1]
    return None


_HEX = b"0123456789abcdef"

# Provenance of characters the engine itself rendered from numbers.  A character produced by hex_items()
# IS the lowercase hex digit of its nibble, and the characters produced by dec_str() ARE the decimal
# expansion of their integer, so decoders may return the source value instead of re-deriving it digit by
# digit (an identity of positional notation that bit-blasting cannot re-prove for 64-bit values).
HEX_SRC = {}   # id(char expr) -> (char expr kept alive, nibble)
DEC_SRC = {}   # id(char expr) -> (char expr kept alive, source SymInt (non-negative), position, ndigits)


def _gc_src():
    if len(HEX_SRC) > 500000:
        HEX_SRC.clear()
    if len(DEC_SRC) > 200000:
        DEC_SRC.clear()


def hex_items(items):
    items = list(items)
    return list(core.memo("hex", items, lambda: _hex_items(items)))


def _hex_items(items):
    out = []
    _gc_src()
    for it in items:
        if isinstance(it, int):
            out.append(_HEX[it >> 4])
            out.append(_HEX[it & 15])
        else:
            for nib in (it >> 4, it & 15):
                ch = ite(nib < 10, nib + 48, nib + 87)
                if isinstance(ch, SymInt):
                    HEX_SRC[ch.e.get_id()] = (ch.e, nib)
                out.append(ch)
    return out


def hex_source(ch):
    if isinstance(ch, SymInt):
        r = HEX_SRC.get(ch.e.get_id())
        if r is not None:
            return r[1]
    return None


def dec_source(items):
    """if `items` are exactly the decimal digits the engine rendered for one integer, return it"""
    if not items or not isinstance(items[0], SymInt):
        return None
    r0 = DEC_SRC.get(items[0].e.get_id())
    if r0 is None or r0[2] != 0 or r0[3] != len(items):
        return None
    for k, it in enumerate(items):
        if not isinstance(it, SymInt):
            return None
        r = DEC_SRC.get(it.e.get_id())
        if r is None or r[1] is not r0[1] or r[2] != k:
            return None
    return r0[1]


def _case_via_table(i, f):
    """case mapping of a table-lookup result T[k] is the lookup (f(T))[k] - keeps the provenance decoders rely on"""
    if isinstance(i, SymInt):
        r = TABLE_SRC.get(i.e.get_id())
        if r is not None:
            t2 = f(r[1])
            if t2 == r[1]:
                return i
            if len(t2) == len(r[1]) and len(set(t2)) == len(t2):
                out = sym_index(t2, r[2])
                return out.items[0] if isinstance(out, SymSeq) else out
    return None


def _lower(i, text=True):
    if isinstance(i, int):
        return _lower1(i, text)
    return core.memo("lower%d" % text, [i], lambda: _lower1(i, text))


def _lower1(i, text=True):
    r = _case_via_table(i, lambda t: t.lower())
    if r is not None:
        return r
    if isinstance(i, int):
        if text and i >= 128:
            return ord(chr(i).lower()) if len(chr(i).lower()) == 1 else _nomodel()
        return i + 32 if 65 <= i <= 90 else i
    if text and i.hi >= 128:
        if bool(truth(i >= 128)):
            raise EngineError("case mapping of non-ASCII symbolic text")
    return ite(sym_and(i >= 65, i <= 90), i + 32, i)


def _nomodel():
    raise EngineError("case mapping that changes length")


def _upper(i, text=True):
    if isinstance(i, int):
        return _upper1(i, text)
    return core.memo("upper%d" % text, [i], lambda: _upper1(i, text))


def _upper1(i, text=True):
    r = _case_via_table(i, lambda t: t.upper())
    if r is not None:
        return r
    if isinstance(i, int):
        if text and i >= 128:
            return ord(chr(i).upper()) if len(chr(i).upper()) == 1 else _nomodel()
        return i - 32 if 97 <= i <= 122 else i
    if text and i.hi >= 128:
        if bool(truth(i >= 128)):
            raise EngineError("case mapping of non-ASCII symbolic text")
    return ite(sym_and(i >= 97, i <= 122), i - 32, i)


def _is_space(i):
    # ASCII whitespace as str.isspace()/bytes.isspace() see it (plus 0x1c-0x1f for str)
    return sym_or(sym_and(i >= 9, i <= 13), i == 32, sym_and(i >= 0x1c, i <= 0x1f))


def _utf8_items(cp):
    """utf-8 bytes of a code point >= 128 (symbolic: concretise the length class by forking)"""
    if isinstance(cp, int):
        return list(chr(cp).encode("utf8"))
    c = core.cur()
    if bool(truth(cp < 0x800)):
        return [0xC0 | (cp >> 6), 0x80 | (cp & 0x3F)]
    if bool(truth(cp < 0x10000)):
        if bool(truth(sym_and(cp >= 0xD800, cp <= 0xDFFF))):
            raise UnicodeEncodeError("utf-8", "", 0, 1, "surrogates not allowed")
        return [0xE0 | (cp >> 12), 0x80 | ((cp >> 6) & 0x3F), 0x80 | (cp & 0x3F)]
    return [0xF0 | (cp >> 18), 0x80 | ((cp >> 12) & 0x3F), 0x80 | ((cp >> 6) & 0x3F), 0x80 | (cp & 0x3F)]


class SymList(list):
    """list whose integer indexes may be symbolic: out-of-range is decided by one fork, an in-range
    index forks over at most len(list) values (instead of over every value of the integer)"""

    def _idx(self, i):
        if isinstance(i, SymBool):
            i = i._int()
        if isinstance(i, SymInt):
            n = len(self)
            if i.lo < -n or i.hi >= n:
                if bool(truth(sym_or(i < -n, i >= n))):
                    raise IndexError("list index out of range")
            return core.cur().concretize(i)
        return i

    def __getitem__(self, i):
        if isinstance(i, slice):
            return list.__getitem__(self, clip_slice(i, len(self)) if any(isinstance(v, (SymInt, SymBool)) for v in (i.start, i.stop, i.step)) else i)
        return list.__getitem__(self, self._idx(i))

    def __setitem__(self, i, v):
        if isinstance(i, slice):
            return list.__setitem__(self, i, v)
        return list.__setitem__(self, self._idx(i), v)

    def __delitem__(self, i):
        if isinstance(i, slice):
            return list.__delitem__(self, i)
        return list.__delitem__(self, self._idx(i))

    def pop(self, i=-1):
        if isinstance(i, (SymInt, SymBool)):
            if len(self) == 0:
                raise IndexError("pop from empty list")
            i = self._idx(i)
        return list.pop(self, i)

    def insert(self, i, v):
        if isinstance(i, (SymInt, SymBool)):
            n = len(self)
            i = core.cur().concretize(ite(i < -n, -n, ite(i > n, n, i)))
        return list.insert(self, i, v)


def is_symkey(x):
    if isinstance(x, SymSeq):
        return not x.concrete()
    if isinstance(x, (SymInt, SymBool)):
        return True
    if isinstance(x, tuple):
        return any(is_symkey(e) for e in x)
    return False


def plain_key(x):
    """hashable stand-in for keys that are SymSeq objects with concrete content"""
    if isinstance(x, SymSeq):
        return x.to_concrete()
    if isinstance(x, tuple):
        return tuple(plain_key(e) for e in x)
    return x


def deep_eq(a, b):
    """equality of keys as bool / SymBool (tuples element-wise)"""
    if isinstance(a, tuple) or isinstance(b, tuple):
        if not (isinstance(a, tuple) and isinstance(b, tuple)) or len(a) != len(b):
            return False
        return sym_and(*[deep_eq(x, y) for x, y in zip(a, b)])
    try:
        r = (a == b)
    except EngineError:
        raise
    except Exception:
        return False
    if r is NotImplemented:
        return False
    return r


_MISSING = object()


class SymDict(dict):
    """dict that also accepts keys with symbolic content.  Concrete keys behave exactly like dict.
    A symbolic key is compared with every stored key by equality (each comparison a decision)."""

    def __init__(self, *a, **k):
        dict.__init__(self)
        self._sym = []          # [(key, value)] for keys with symbolic content
        if a or k:
            self.update(*a, **k)

    def _find(self, k):
        """-> ('n', native key) | ('s', index) | None"""
        if isinstance(k, (SymInt, SymBool)) and not self._sym:
            # integer key: one multi-way decision over its feasible values, then an ordinary lookup
            k = core.cur().concretize(k)
        if is_symkey(k):
            for kk in dict.keys(self):
                if _maybe_eq(kk, k) and bool(truth(deep_eq(k, kk))):
                    return ("n", kk)
        else:
            k = plain_key(k)
            if dict.__contains__(self, k):
                return ("n", k)
        for i, (kk, _) in enumerate(self._sym):
            if _maybe_eq(kk, k) and bool(truth(deep_eq(k, kk))):
                return ("s", i)
        return None

    def __contains__(self, k):
        return self._find(k) is not None

    def __getitem__(self, k):
        if isinstance(k, (SymInt, SymBool)) and not self._sym and 0 < dict.__len__(self) <= 128:
            # small int -> int table: membership is one decision, the value an if-then-else chain (no fork per key)
            keys = list(dict.keys(self))
            if all(isinstance(x, int) and not isinstance(x, bool) for x in keys) and \
                    all(isinstance(v, (int, SymInt)) and not isinstance(v, bool) for v in dict.values(self)):
                if not bool(truth(sym_or(*[k == x for x in keys]))):
                    raise KeyError(k)
                r = dict.__getitem__(self, keys[-1])
                for x in reversed(keys[:-1]):
                    r = ite(k == x, dict.__getitem__(self, x), r)
                return r
        r = self._find(k)
        if r is None:
            if hasattr(type(self), "__missing__"):
                return type(self).__missing__(self, k)
            raise KeyError(k)
        return dict.__getitem__(self, r[1]) if r[0] == "n" else self._sym[r[1]][1]

    def get(self, k, default=None):
        r = self._find(k)
        if r is None:
            return default
        return dict.__getitem__(self, r[1]) if r[0] == "n" else self._sym[r[1]][1]

    def __setitem__(self, k, v):
        r = self._find(k)
        if r is not None:
            if r[0] == "n":
                dict.__setitem__(self, r[1], v)
            else:
                self._sym[r[1]] = (self._sym[r[1]][0], v)
            return
        if is_symkey(k):
            self._sym.append((k, v))
        else:
            dict.__setitem__(self, plain_key(k), v)

    def __delitem__(self, k):
        r = self._find(k)
        if r is None:
            raise KeyError(k)
        if r[0] == "n":
            dict.__delitem__(self, r[1])
        else:
            del self._sym[r[1]]

    def pop(self, k, *d):
        r = self._find(k)
        if r is None:
            if d:
                return d[0]
            raise KeyError(k)
        v = self[k]
        del self[k]
        return v

    def setdefault(self, k, d=None):
        if k in self:
            return self[k]
        self[k] = d
        return d

    def update(self, *a, **kw):
        for src in a:
            if hasattr(src, "keys"):
                for k in src.keys():
                    self[k] = src[k]
            else:
                for k, v in src:
                    self[k] = v
        for k, v in kw.items():
            self[k] = v

    def __len__(self):
        return dict.__len__(self) + len(self._sym)

    def __bool__(self):
        return len(self) > 0

    def __iter__(self):
        return iter(list(dict.keys(self)) + [k for k, _ in self._sym])

    def keys(self):
        return list(self.__iter__())

    def values(self):
        return list(dict.values(self)) + [v for _, v in self._sym]

    def items(self):
        return list(dict.items(self)) + list(self._sym)

    def copy(self):
        c = type(self)()
        for k, v in self.items():
            c[k] = v
        return c

    def clear(self):
        dict.clear(self)
        del self._sym[:]

    def __eq__(self, o):
        if not self._sym and not getattr(o, "_sym", None):
            return dict.__eq__(self, o)
        raise EngineError("comparison of dicts with symbolic keys")

    def __ne__(self, o):
        return not self.__eq__(o)

    __hash__ = None

    def __repr__(self):
        return "SymDict(%s + %d symbolic keys)" % (dict.__repr__(self), len(self._sym))


def _maybe_eq(a, b):
    """cheap structural pre-filter: can a == b possibly hold?"""
    if isinstance(a, tuple) or isinstance(b, tuple):
        return isinstance(a, tuple) and isinstance(b, tuple) and len(a) == len(b) and all(_maybe_eq(x, y) for x, y in zip(a, b))
    sa = isinstance(a, (bytes, bytearray, str, SymSeq))
    sb = isinstance(b, (bytes, bytearray, str, SymSeq))
    if sa != sb:
        return False
    if sa:
        return len(a) == len(b)
    return True


class SymSet(set):
    """set that also accepts elements with symbolic content (same idea as SymDict)"""

    def __init__(self, it=()):
        set.__init__(self)
        self._sym = []
        for x in it:
            self.add(x)

    def _has(self, x):
        if isinstance(x, (SymInt, SymBool)) and not self._sym:
            x = core.cur().concretize(x)
        if is_symkey(x):
            for e in set.__iter__(self):
                if _maybe_eq(e, x) and bool(truth(deep_eq(x, e))):
                    return True
        else:
            if set.__contains__(self, plain_key(x)):
                return True
        for e in self._sym:
            if _maybe_eq(e, x) and bool(truth(deep_eq(x, e))):
                return True
        return False

    def __contains__(self, x):
        return self._has(x)

    def add(self, x):
        if self._has(x):
            return
        if is_symkey(x):
            self._sym.append(x)
        else:
            set.add(self, plain_key(x))

    def update(self, *its):
        for it in its:
            for x in it:
                self.add(x)

    def discard(self, x):
        if is_symkey(x) or self._sym:
            raise EngineError("SymSet.discard with symbolic content")
        set.discard(self, plain_key(x))

    def remove(self, x):
        if is_symkey(x) or self._sym:
            raise EngineError("SymSet.remove with symbolic content")
        set.remove(self, plain_key(x))

    def __len__(self):
        return set.__len__(self) + len(self._sym)

    def __bool__(self):
        return len(self) > 0

    def __iter__(self):
        return iter(list(set.__iter__(self)) + list(self._sym))

    def copy(self):
        return SymSet(self)

    def _nosym(self, o=None):
        if self._sym or getattr(o, "_sym", None):
            raise EngineError("set algebra on sets with symbolic elements")

    def __or__(self, o):
        self._nosym(o)
        return SymSet(set.__or__(self, o))

    def __and__(self, o):
        self._nosym(o)
        return SymSet(set.__and__(self, o))

    def __sub__(self, o):
        self._nosym(o)
        return SymSet(set.__sub__(self, o))

    def difference(self, *o):
        self._nosym()
        return SymSet(set.difference(self, *o))

    def union(self, *o):
        r = SymSet(self)
        for x in o:
            r.update(x)
        return r

    def intersection(self, *o):
        self._nosym()
        return SymSet(set.intersection(self, *o))

    def pop(self):
        if self._sym:
            return self._sym.pop()
        return set.pop(self)

    __hash__ = None


def _eq_hook(a, b):
    """equality of a table-lookup result T[i] (T with distinct entries) with a constant or another lookup in the same table"""
    ra = TABLE_SRC.get(a.e.get_id())
    if ra is None:
        return None
    table, i = ra[1], ra[2]
    if isinstance(b, int) and not isinstance(b, bool):
        its = items_of(table)
        if b not in its:
            return False
        return i == its.index(b)
    if isinstance(b, SymInt):
        rb = TABLE_SRC.get(b.e.get_id())
        if rb is not None and rb[1] == table:
            return i == rb[2]
    return None


core.EQ_HOOK = _eq_hook
